#!/bin/bash
# setup_cmd: build the engines from files on disk only (offline).
set -e
cd "$(dirname "$0")"
export CARGO_NET_OFFLINE=true
mkdir -p evidence replays bin scratch shadow/gen sim/target
( cd sim && cargo build --release --offline )
REPO="${VERIF_REPO:-/repo}"
sed "s|@REPO@|$REPO|g" shadow/Cargo.toml.in > shadow/gen/Cargo.toml
( cd simthreads && HBS_LMS_THREADS=1 HBS_LMS_MAX_HASH_OPTIMIZATIONS=50 cargo build --release --offline )
echo "setup ok"
