// Exposes the HBS_LMS_* build knobs (the same environment the library's own build script reads)
// to the engine, so that a binary knows which limits the library it links was built with (C14).
use std::{env, fs, path::Path};

fn list(name: &str, default: &str) -> Vec<u32> {
    println!("cargo:rerun-if-env-changed={}", name);
    env::var(name)
        .unwrap_or_else(|_| default.to_string())
        .split(',')
        .map(|s| s.trim().parse::<u32>().expect("bad knob value"))
        .collect()
}

fn main() {
    println!("cargo:rerun-if-env-changed=HBS_LMS_MAX_ALLOWED_HSS_LEVELS");
    let levels: usize = env::var("HBS_LMS_MAX_ALLOWED_HSS_LEVELS")
        .ok()
        .map(|s| s.trim().parse().expect("bad level count"))
        .unwrap_or(8);
    let default_h = vec!["25"; levels].join(", ");
    let default_w = vec!["1"; levels].join(", ");
    let heights = list("HBS_LMS_TREE_HEIGHTS", &default_h);
    let ws = list("HBS_LMS_WINTERNITZ_PARAMETERS", &default_w);
    let out = format!(
        "pub const BUILD_MAX_LEVELS: usize = {};\npub const BUILD_TREE_HEIGHTS: &[u32] = &{:?};\npub const BUILD_MIN_W: &[u32] = &{:?};\npub const BUILD_IS_DEFAULT: bool = {};\n",
        levels,
        heights,
        ws,
        levels == 8 && heights.iter().all(|&h| h == 25) && ws.iter().all(|&w| w == 1)
    );
    let dest = Path::new(&env::var("OUT_DIR").unwrap()).join("build_limits.rs");
    fs::write(dest, out).unwrap();
    println!("cargo:rustc-check-cfg=cfg(hbs_lms_verif)");
}
