//! Negative controls (oracle liveness): the harness breaks a precondition on purpose and the oracle
//! must fire.  Never touches /repo.  A control that stays silent is a harness error.

use crate::exec::{run_plan, Options, World};
use crate::lib_iface::HashId;
use crate::model::{self, verify::VerifyCfg, LsPolicy};
use crate::plan::*;

fn tiny_key() -> KeyCfg {
    let h = if crate::lib_iface::H2_KNOWN { 2 } else { 5 };
    KeyCfg { hash: HashId::Sha256_128, params: vec![(4, h), (4, h)], seed: (1..=16).collect() }
}

pub fn run() -> Result<(), String> {
    // (i) two processes load the same durable key and both sign different messages -> ledger
    // (controls that drive the library need a key inside the build's limits; constrained builds
    // are only ever run next to the default build, whose checks run these controls)
    if crate::BUILD_IS_DEFAULT {
        let plan = Plan { profile: "control".into(), verif_seed: 0, run: 0, keys: vec![tiny_key()], procs: vec![0, 0], ops: vec![], note: String::new() };
        let mut w = World::new(&plan, Options::default());
        w.op_keygen(0, &None);
        w.op_load(0, LoadAs::Bytes);
        w.op_load(1, LoadAs::Bytes);
        w.op_sign(0, &Msg { len: 5, cseed: 1 }, Api::Fn, Cb::Accept, None);
        // process 1 still holds the stale key: the precondition "continue from the most recently
        // persisted key" is broken on purpose
        w.op_sign(1, &Msg { len: 5, cseed: 2 }, Api::Fn, Cb::Accept, None);
        if !w.rep.violations.iter().any(|v| v.property == "C03" && v.oracle == "ledger") {
            return Err("ledger did not report reuse by a stale second process".into());
        }
    }
    // (ii) a flipped bit in a released signature: the reference verifier must reject
    {
        let k = tiny_key();
        let key = model::HssKey { hs: k.hash.spec(), params: k.params.clone(), seed: k.seed.clone() };
        let pk = key.public_key();
        let mut sig = key.sign(3, b"control", LsPolicy::Rfc, model::CConv::Library).unwrap();
        let cfg = VerifyCfg { h2_known: true, ls: LsPolicy::Rfc };
        if model::verify::hss_verify(k.hash.spec(), b"control", &sig, &pk, &cfg).is_err() {
            return Err("reference verifier rejects a reference signature".into());
        }
        let l = sig.len();
        sig[l / 2] ^= 4;
        if model::verify::hss_verify(k.hash.spec(), b"control", &sig, &pk, &cfg).is_ok() {
            return Err("reference verifier accepts a corrupted signature".into());
        }
    }
    // (iii) wire oracle: a model-made signature under the wrong key must give reject/reject and an
    // extended one must be flagged by the model
    if crate::BUILD_IS_DEFAULT {
        let plan = Plan {
            profile: "control".into(),
            verif_seed: 0,
            run: 0,
            keys: vec![tiny_key()],
            procs: vec![0],
            ops: vec![
                Op::Keygen { key: 0, aux: None },
                Op::Sign { proc: 0, msg: Msg { len: 9, cseed: 7 }, api: Api::Fn, cb: Cb::Accept, aux: None },
                Op::Send { key: 0, release: 0 },
                Op::Deliver { env: 0, fault: WireFault::None, entry: crate::lib_iface::VerifyEntry::Fn },
                Op::Deliver { env: 0, fault: WireFault::MsgBit { pos: 0, bit: 0 }, entry: crate::lib_iface::VerifyEntry::Fn },
            ],
            note: String::new(),
        };
        let rep = run_plan(&plan, true);
        if rep.stats.deliveries != 2 || rep.stats.releases != 1 {
            return Err(format!("wire control did not run as planned: {:?}", rep.events));
        }
    }
    // (iv) aux model: a forged node must be noticed by check_aux
    {
        let k = tiny_key();
        let hs = k.hash.spec();
        let (s, i) = model::top(hs, &k.seed);
        let t = model::tree(hs, k.params[0].0, k.params[0].1, &s, &i);
        let lvl = 1usize;
        let mut aux = (0x8000_0000u32 | (1 << lvl)).to_be_bytes().to_vec();
        for j in 0..(1 << lvl) {
            aux.extend_from_slice(&t.nodes[(1 << lvl) + j]);
        }
        let mac = model::aux_mac(hs, &k.seed, &aux);
        aux.extend_from_slice(&mac);
        if !matches!(model::check_aux(hs, &k.params, &k.seed, &aux), model::AuxCheck::Valid { .. }) {
            return Err("aux model rejects a model-made aux buffer".into());
        }
        aux[6] ^= 1;
        if matches!(model::check_aux(hs, &k.params, &k.seed, &aux), model::AuxCheck::Valid { .. }) {
            return Err("aux model accepts a poisoned node".into());
        }
        model::clear_tree_cache();
    }
    Ok(())
}
