//! Plan generators, one per profile.  The PRNG is consumed here and nowhere else.

use crate::lib_iface::{HashId, VerifyEntry, ALL_HASHES, H2_KNOWN, PLAIN_HASHES};
use crate::model;
use crate::plan::*;
use crate::rng::Rng;

#[derive(Clone)]
pub struct GenCtx {
    pub verif_seed: u64,
    pub quick: bool,
}

pub fn generate(ctx: &GenCtx, profile: &str, run: u64) -> Option<Plan> {
    let mut rng = Rng::for_run(ctx.verif_seed, profile, run);
    let mut plan = match profile {
        "lifecycle" => lifecycle(ctx, &mut rng, run, false),
        "lifecycle-full" => lifecycle(ctx, &mut rng, run, true),
        "callback" => callback(ctx, &mut rng, run)?,
        "corners" => corners(ctx, &mut rng, run)?,
        "wire" => crate::gen2::wire(ctx, &mut rng, run),
        "wire-total" => crate::gen2::wire_total(ctx, &mut rng, run)?,
        "storage" => crate::gen2::storage(ctx, &mut rng, run)?,
        "aux" | "aux-proc" => crate::gen2::aux(ctx, &mut rng, run),
        "aux-enum" => crate::gen2::aux_enum(ctx, &mut rng, run)?,
        "keygen" => crate::gen2::keygen(ctx, &mut rng, run),
        "purity" => crate::gen2::purity(ctx, &mut rng, run),
        "purity-proc" => crate::gen2::purity_proc(ctx, &mut rng, run),
        "radix-arith" => crate::gen2::radix_arith(ctx, &mut rng, run)?,
        "radix-e2e" => crate::gen2::radix_e2e(ctx, &mut rng, run)?,
        "tall" => crate::gen2::tall(ctx, &mut rng, run)?,
        "handover" => crate::gen2::handover(ctx, &mut rng, run),
        "limits" => crate::gen2::limits(ctx, &mut rng, run)?,
        _ => return None,
    };
    plan.profile = profile.to_string();
    plan.verif_seed = ctx.verif_seed;
    plan.run = run;
    Some(plan)
}

pub fn empty_plan() -> Plan {
    Plan { profile: String::new(), verif_seed: 0, run: 0, keys: vec![], procs: vec![], ops: vec![], note: String::new() }
}

/// hash units of one tree of (n, w, h): leaves * p * 2^w
pub fn tree_cost(hash: HashId, w: u32, h: u32) -> u64 {
    let p = model::ots_params(hash.n(), w).3 as u64;
    (1u64 << h) * p * (1u64 << w) * hash.cost()
}
pub fn sign_cost(hash: HashId, params: &[(u32, u32)]) -> u64 {
    params.iter().map(|&(w, h)| tree_cost(hash, w, h)).sum()
}

/// is this parameter list inside the limits of the library build we are linked against?
pub fn in_build_limits(params: &[(u32, u32)]) -> bool {
    params.len() <= crate::BUILD_MAX_LEVELS && params.iter().enumerate().all(|(i, &(w, h))| h <= crate::BUILD_TREE_HEIGHTS[i] && w >= crate::BUILD_MIN_W[i])
}

pub fn heights_available() -> Vec<u32> {
    if H2_KNOWN {
        vec![2, 5, 10]
    } else {
        vec![5, 10]
    }
}

pub fn pick_hash(rng: &mut Rng) -> HashId {
    *rng.pick(&ALL_HASHES)
}
pub fn pick_plain_hash(rng: &mut Rng) -> HashId {
    *rng.pick(&PLAIN_HASHES)
}

pub fn msg(rng: &mut Rng, n: usize) -> Msg {
    let edges = [0usize, 1, n - 1, n, n + 1, 17, 55, 56, 64, 119, 120];
    let len = match rng.below(12) {
        0..=5 => *rng.pick(&edges),
        6..=8 => rng.range(2, 300) as usize,
        9 | 10 => {
            // what the message hash absorbs is I || q || D_MESG || C || message = 22 + n + len bytes: put that
            // total at and around multiples of every block / buffer size an implementation may use
            let b = *rng.pick(&[64usize, 128, 136, 256, 512, 1024, 4096]);
            let k = *rng.pick(&[1usize, 2, 3, 4, 8, 16, 17, 32]);
            let total = (b * k).min(16384 + 22 + n);
            let d = *rng.pick(&[-9i64, -8, -1, 0, 1]);
            ((total as i64) - 22 - (n as i64) + d).max(0) as usize
        }
        _ => {
            // log-uniform up to 16 KiB
            let bits = rng.range(8, 14);
            rng.range(1 << (bits - 1), 1 << bits) as usize
        }
    };
    Msg { len, cseed: rng.next_u64() }
}

/// A key shape inside the build limits: swarm-chosen levels, heights, Winternitz parameters.
pub fn shape(rng: &mut Rng, hash: HashId, max_levels: usize, budget_per_sign: u64) -> Vec<(u32, u32)> {
    let maxl = max_levels.min(crate::BUILD_MAX_LEVELS).max(1);
    for _ in 0..200 {
        let l = (*rng.weighted(&[(3, 1usize), (4, 2), (3, 3), (2, 4), (1, 5), (1, 6), (1, 7), (2, 8)])).min(maxl);
        let mut params = vec![];
        for i in 0..l {
            let hmax = crate::BUILD_TREE_HEIGHTS[i];
            let wmin = crate::BUILD_MIN_W[i];
            let hs: Vec<(u64, u32)> = [(6u64, 2u32), (3, 5), (1, 10)].iter().filter(|(_, h)| *h <= hmax && (*h != 2 || H2_KNOWN)).cloned().collect();
            let ws: Vec<(u64, u32)> = [(3u64, 1u32), (3, 2), (3, 4), (2, 8)].iter().filter(|(_, w)| *w >= wmin).cloned().collect();
            if hs.is_empty() || ws.is_empty() {
                break;
            }
            params.push((*rng.weighted(&ws), *rng.weighted(&hs)));
        }
        if params.len() == l && sign_cost(hash, &params) <= budget_per_sign && params.iter().map(|p| p.1).sum::<u32>() < 64 {
            return params;
        }
    }
    // fallback: the cheapest shape the build allows
    let h = if H2_KNOWN { 2 } else { 5 };
    vec![(crate::BUILD_MIN_W[0].max(2), h.min(crate::BUILD_TREE_HEIGHTS[0]))]
}

pub fn boundary_counters(hts: &[u32]) -> Vec<u64> {
    let total: u32 = hts.iter().sum();
    let last = if total >= 64 { u64::MAX } else { (1u64 << total) - 1 };
    let mut out = vec![0, 1, last, last.saturating_sub(1), last.saturating_sub(2)];
    let mut suffix = 0u32;
    for j in (1..hts.len()).rev() {
        suffix += hts[j];
        if suffix >= 63 {
            break;
        }
        let unit = 1u64 << suffix;
        // k * unit + {-2,-1,0,1} for a few k
        for k in [1u64, 2, 3, (last / unit).max(1), (last / unit).max(2) / 2] {
            if let Some(b) = k.checked_mul(unit) {
                for d in [-2i64, -1, 0, 1] {
                    let v = b as i128 + d as i128;
                    if v >= 0 && (v as u128) <= last as u128 {
                        out.push(v as u64);
                    }
                }
            }
        }
    }
    out.sort();
    out.dedup();
    out
}

fn fault_cb(rng: &mut Rng, crashy: bool) -> Cb {
    if crashy {
        *rng.pick(&[Cb::Reject, Cb::RejectOnce, Cb::CrashBeforeDurable, Cb::CrashAfterDurable, Cb::CrashAfterReturn])
    } else {
        *rng.pick(&[Cb::Reject, Cb::Reject, Cb::RejectOnce])
    }
}

/// lifecycle: one key, one signer process at a time, histories of sign / failed sign / reload /
/// API switches, from a fresh key or from a boundary counter.  `full`: complete lifetimes.
fn lifecycle(ctx: &GenCtx, rng: &mut Rng, _run: u64, full: bool) -> Plan {
    let mut plan = empty_plan();
    let hash = pick_hash(rng);
    let per_sign_budget = if ctx.quick { 300_000 } else { 1_500_000 };
    let run_budget: u64 = if ctx.quick { 3_000_000 } else { 12_000_000 };
    let mut params;
    loop {
        params = shape(rng, hash, if full { 4 } else { 8 }, per_sign_budget);
        let total: u32 = params.iter().map(|p| p.1).sum();
        if !full {
            break;
        }
        let leaves = 1u64 << total.min(40);
        if leaves * sign_cost(hash, &params) <= run_budget * 4 && leaves <= if ctx.quick { 256 } else { 4096 } {
            break;
        }
    }
    let hts: Vec<u32> = params.iter().map(|p| p.1).collect();
    let total: u32 = hts.iter().sum();
    let leaves: u64 = 1u64 << total;
    let cost = sign_cost(hash, &params).max(1);
    let n_signs = if full { leaves + 3 } else { (run_budget / cost).clamp(3, 120) };
    let crashy = rng.chance(1, 2);
    let fault_pct = *rng.pick(&[0u64, 10, 20, 35]);
    let seed = match rng.below(8) {
        0 => vec![0u8; hash.n()],
        1 => vec![0xffu8; hash.n()],
        _ => rng.bytes(hash.n()),
    };
    plan.keys.push(KeyCfg { hash, params: params.clone(), seed });
    plan.procs.push(0);
    let with_aux = rng.chance(1, 3);
    let aux_len = *rng.pick(&[100usize, 500, 1000, 2500, 40_000]);
    plan.ops.push(Op::Keygen { key: 0, aux: if with_aux { Some((0, aux_len, AuxFill::Zero)) } else { None } });
    let start = if full {
        0
    } else {
        match rng.below(4) {
            0 => 0,
            1 => rng.below(leaves),
            _ => *rng.pick(&boundary_counters(&hts)),
        }
    };
    if start != 0 {
        plan.ops.push(Op::Inject { key: 0, counter: start });
    }
    // swarm over the shape of the history itself: how often the remaining lifetime is asked for (only on the
    // fresh key and at the very end / now and then / after every signature), whether the handle is ever
    // dropped and reloaded, and which entry points sign — one live SigningKey object for a whole life with no
    // query in between is a different history from one that is reloaded and queried all the time
    let query_mode = *rng.weighted(&[(2, 0u8), (5, 1), (2, 2)]);
    let reload_mode = *rng.weighted(&[(1, 0u8), (3, 1)]);
    let api_mode = *rng.weighted(&[(5, 0u8), (1, 1), (2, 2), (1, 3)]);
    let crashy = crashy && reload_mode != 0;
    if query_mode != 1 || rng.chance(1, 2) {
        plan.ops.push(Op::Load { proc: 0, how: if api_mode == 1 { LoadAs::Bytes } else { LoadAs::Object } });
        plan.ops.push(Op::Lifetime { proc: 0 });
    }
    plan.note = format!("{} start={} crashy={} faults={}% full={} queries={} reloads={} apis={}", crate::exec::shape_string(hash, &params), start, crashy, fault_pct, full, query_mode, reload_mode, api_mode);
    let mut signs = 0;
    // upper bound on ops so that fault-heavy runs still end
    let mut guard = n_signs * 4 + 20;
    let mut successes = 0u64;
    while signs < n_signs && guard > 0 {
        guard -= 1;
        match rng.below(20) {
            0 if query_mode != 0 => plan.ops.push(Op::Lifetime { proc: 0 }),
            1 if reload_mode != 0 => plan.ops.push(Op::Load { proc: 0, how: *rng.pick(&[LoadAs::Bytes, LoadAs::Object]) }),
            2 if crashy => plan.ops.push(Op::Kill { proc: 0 }),
            _ => {
                let api = match api_mode {
                    1 => Api::Fn,
                    2 => Api::Obj,
                    3 => Api::ObjAux,
                    _ => *rng.weighted(&[(5, Api::Fn), (3, Api::Obj), (2, Api::ObjAux)]),
                };
                let cb = if rng.below(100) < fault_pct { fault_cb(rng, crashy) } else { Cb::Accept };
                let aux = if with_aux && rng.chance(1, 2) { Some(0) } else { None };
                plan.ops.push(Op::Sign { proc: 0, msg: msg(rng, hash.n()), api, cb, aux });
                signs += 1;
                if matches!(cb, Cb::Accept) {
                    successes += 1;
                    if query_mode == 2 || (query_mode == 1 && rng.chance(1, 6)) {
                        plan.ops.push(Op::Lifetime { proc: 0 });
                    }
                }
                if full && start + successes >= leaves {
                    // walk past the end: the wiped key must refuse through every handle
                    for how in [LoadAs::Bytes, LoadAs::Object] {
                        plan.ops.push(Op::Lifetime { proc: 0 });
                        plan.ops.push(Op::Sign { proc: 0, msg: msg(rng, hash.n()), api: Api::Fn, cb: Cb::Accept, aux: None });
                        plan.ops.push(Op::Sign { proc: 0, msg: msg(rng, hash.n()), api: Api::Obj, cb: Cb::Accept, aux: None });
                        plan.ops.push(Op::Load { proc: 0, how });
                    }
                    plan.ops.push(Op::Lifetime { proc: 0 });
                    break;
                }
            }
        }
    }
    plan
}

pub const CALLBACK_SHAPES: &[&[u32]] = &[&[2], &[5], &[2, 2], &[2, 2, 2]];
pub const CALLBACK_SHAPES_NOHOOK: &[&[u32]] = &[&[5]];

/// callback: the crossing (key shape x w x hash x callback behaviour x aux kind x API) enumerated by
/// run index; every counter of the complete lifetime is visited in each run, followed by the
/// failing preconditions.
fn callback(_ctx: &GenCtx, rng: &mut Rng, run: u64) -> Option<Plan> {
    let shapes: &[&[u32]] = if H2_KNOWN { CALLBACK_SHAPES } else { CALLBACK_SHAPES_NOHOOK };
    let ws = [1u32, 2, 4, 8];
    let hashes = [HashId::Sha256_128, HashId::M_Shake256_128];
    let cbs = [Cb::Accept, Cb::Reject, Cb::CrashBeforeDurable, Cb::CrashAfterDurable, Cb::RejectOnce];
    let auxk = 4u64; // none, fresh zero, valid, corrupted
    let apis = [Api::Fn, Api::ObjAux];
    let dims = [shapes.len() as u64, ws.len() as u64, hashes.len() as u64, cbs.len() as u64, auxk, apis.len() as u64];
    let total: u64 = dims.iter().product();
    if run >= total {
        return None;
    }
    let mut r = run;
    let mut ix = [0u64; 6];
    for (k, d) in dims.iter().enumerate() {
        ix[k] = r % d;
        r /= d;
    }
    let hts = shapes[ix[0] as usize];
    let w = ws[ix[1] as usize];
    let hash = hashes[ix[2] as usize];
    let cb = cbs[ix[3] as usize];
    let auxkind = ix[4];
    let api = apis[ix[5] as usize];
    let params: Vec<(u32, u32)> = hts.iter().map(|&h| (w, h)).collect();
    if !in_build_limits(&params) {
        return None;
    }
    let n = hash.n();
    let mut plan = empty_plan();
    plan.keys.push(KeyCfg { hash, params: params.clone(), seed: rng.bytes(n) });
    plan.procs.push(0);
    plan.note = format!("enumerated: {} cb={:?} aux-kind={} api={:?}", crate::exec::shape_string(hash, &params), cb, auxkind, api);
    let aux_len = 4 + n + (n << hts[0]) + 100;
    plan.ops.push(Op::Keygen { key: 0, aux: if auxkind >= 2 { Some((0, aux_len, AuxFill::Zero)) } else { None } });
    if auxkind == 1 {
        plan.ops.push(Op::NewAux { key: 0, slot: 0, len: aux_len, fill: AuxFill::Zero });
    }
    if auxkind == 3 {
        plan.ops.push(Op::AuxFault { key: 0, slot: 0, fault: AuxFault::BitFlipAt { byte: 4 + n / 2, bit: 3 } });
    }
    let aux = if auxkind >= 1 { Some(0) } else { None };
    let leaves: u64 = 1 << hts.iter().sum::<u32>();
    for c in 0..leaves {
        if !matches!(cb, Cb::Accept) {
            // the state is injected so that every counter meets this callback behaviour
            plan.ops.push(Op::Inject { key: 0, counter: c });
        }
        plan.ops.push(Op::Sign { proc: 0, msg: Msg { len: (c as usize * 7) % 50, cseed: rng.next_u64() }, api, cb, aux });
        if auxkind == 1 && !matches!(cb, Cb::Accept) {
            plan.ops.push(Op::NewAux { key: 0, slot: 0, len: aux_len, fill: AuxFill::Zero });
        }
    }
    // failing preconditions, each met with this callback behaviour
    let mut bad: Vec<PrvFault> = vec![PrvFault::Wiped, PrvFault::ForeignExhausted];
    for len in 0..(16 + n) {
        bad.push(PrvFault::SetLen { len, fill: 0x11 });
    }
    for len in [16 + n + 1, 16 + n + 16, 200] {
        bad.push(PrvFault::SetLen { len, fill: 0x11 });
    }
    for val in [0x00u8, 0x0f, 0x10, 0x50, 0x55, 0xa1, 0xfe, 0x15] {
        bad.push(PrvFault::ParamByte { idx: 0, val });
    }
    for val in [leaves, leaves + 1, u64::MAX, 1u64 << 63] {
        bad.push(PrvFault::Counter { val });
    }
    for f in bad {
        plan.ops.push(Op::Inject { key: 0, counter: 0 });
        plan.ops.push(Op::PrvFault { key: 0, fault: f });
        plan.ops.push(Op::Sign { proc: 0, msg: Msg { len: 3, cseed: 1 }, api, cb, aux });
    }
    Some(plan)
}

pub fn callback_space_size() -> u64 {
    let shapes = if H2_KNOWN { CALLBACK_SHAPES.len() } else { CALLBACK_SHAPES_NOHOOK.len() } as u64;
    shapes * 4 * 2 * 5 * 4 * 2
}

#[allow(dead_code)]
pub fn entries() -> [VerifyEntry; 3] {
    crate::lib_iface::ALL_ENTRIES
}


/// corners: the corners of the shape space enumerated, not sampled: every hash x every level count
/// 1..8 x uniform w in {1,2,4,8} (cheapest height), plus mixed-w lists; signatures at the first, a middle
/// and the last counter through both APIs, lifetime queries, one rejected callback, the walk past the end.
pub fn corners(_ctx: &GenCtx, rng: &mut Rng, run: u64) -> Option<Plan> {
    let ws = [1u32, 2, 4, 8, 0]; // 0 = mixed per level
    let dims = [PLAIN_HASHES.len() as u64, 8, ws.len() as u64];
    let total: u64 = dims.iter().product();
    if run >= total {
        return None;
    }
    let hash = PLAIN_HASHES[(run % 6) as usize];
    let l = ((run / 6) % 8 + 1) as usize;
    let w = ws[(run / 48) as usize];
    if l > crate::BUILD_MAX_LEVELS {
        return None;
    }
    let h = if H2_KNOWN { 2 } else { 5 };
    if !H2_KNOWN && l > 4 {
        return None; // 2^(5*l) leaves: middle/last counters are still cheap, but keep the twin small
    }
    let params: Vec<(u32, u32)> = (0..l).map(|i| (if w == 0 { [1u32, 8, 2, 4][(i + run as usize) % 4] } else { w }, h)).collect();
    if !in_build_limits(&params) {
        return None;
    }
    let mut plan = empty_plan();
    plan.keys.push(KeyCfg { hash, params: params.clone(), seed: rng.bytes(hash.n()) });
    plan.procs.push(0);
    plan.ops.push(Op::Keygen { key: 0, aux: None });
    plan.ops.push(Op::Lifetime { proc: 0 });
    let leaves = 1u64 << (h as u64 * l as u64);
    for c in [0, 1, leaves / 2 - 1, leaves / 2, leaves - 2] {
        if c >= leaves {
            continue;
        }
        plan.ops.push(Op::Inject { key: 0, counter: c });
        plan.ops.push(Op::Sign { proc: 0, msg: msg(rng, hash.n()), api: Api::Fn, cb: Cb::Accept, aux: None });
        plan.ops.push(Op::Lifetime { proc: 0 });
    }
    plan.ops.push(Op::Inject { key: 0, counter: leaves - 2 });
    plan.ops.push(Op::Sign { proc: 0, msg: msg(rng, hash.n()), api: Api::Fn, cb: Cb::Reject, aux: None });
    plan.ops.push(Op::Sign { proc: 0, msg: msg(rng, hash.n()), api: Api::Obj, cb: Cb::Accept, aux: None });
    plan.ops.push(Op::Sign { proc: 0, msg: msg(rng, hash.n()), api: Api::Fn, cb: Cb::Accept, aux: None });
    plan.ops.push(Op::Lifetime { proc: 0 });
    plan.ops.push(Op::Sign { proc: 0, msg: msg(rng, hash.n()), api: Api::Fn, cb: Cb::Accept, aux: None });
    plan.ops.push(Op::Sign { proc: 0, msg: msg(rng, hash.n()), api: Api::Obj, cb: Cb::Accept, aux: None });
    plan.note = format!("enumerated corner: {}", crate::exec::shape_string(hash, &params));
    Some(plan)
}
pub const CORNERS: u64 = 6 * 8 * 5;
