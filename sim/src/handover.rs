//! Hand-over of one key file between the library and the hash-sigs binary (C13 (c), C02, C07).

use crate::exec::{heights, Release, World};
use crate::hashsigs::Node;
use crate::lib_iface::{self as lib, HashId, Outcome, ALL_ENTRIES, H2_KNOWN};
use crate::model::{self, CConv, Decoded, LsPolicy};
use crate::rng::content;
use crate::util::short_hex;

pub fn op_handover(w: &mut World, ki: usize, advance: u64, msgs: u8) {
    if ki >= w.keys.len() || !w.keys[ki].generated {
        return;
    }
    let cfg = w.keys[ki].cfg.clone();
    if cfg.hash != HashId::Sha256_256 || cfg.params.iter().any(|p| p.1 < 5) || !w.opt.hashsigs {
        w.event(format!("handover k{} skipped (not SHA-256/32 with heights >= 5)", ki));
        return;
    }
    if w.node.is_none() {
        w.node = Node::new();
    }
    if w.node.is_none() {
        w.rep.stats.probe("hash-sigs-unavailable");
        return;
    }
    w.fault("handover");
    // every library process must reload after the other implementation used the file
    for p in w.procs.iter_mut().filter(|p| p.key == ki) {
        p.mem = None;
    }
    let mut prv = w.keys[ki].prv.clone();
    let hts = heights(&cfg.params);
    let total = model::total_leaves(&hts);
    let mut log = format!("handover k{} advance={} msgs={}:", ki, advance, msgs);
    let decoded = model::decode_prv(32, &prv, H2_KNOWN);
    match &decoded {
        Decoded::Valid { .. } => {}
        _ => {
            // a key the library wiped (or one that names no leaf) must be refused by hash-sigs
            let loads = w.node.as_ref().unwrap().loads(&prv);
            log.push_str(&format!(" bad-key loads={:?}", loads));
            w.event(log);
            w.oracle_evaluated();
            if w.node.as_ref().unwrap().take_timeout() {
                w.rep.stats.probe("hash-sigs-timeout");
                return;
            }
            if loads == Some(true) {
                w.violate("C13", "exhausted-key-accepted-by-hash-sigs", "handover", format!("hash-sigs signs with the key file {} the library left behind", short_hex(&prv)));
            } else {
                w.rep.stats.probe("exhausted-key-refused-by-hash-sigs");
            }
            return;
        }
    }
    let mut counter = match decoded {
        Decoded::Valid { counter, .. } => counter,
        _ => unreachable!(),
    };
    if advance > 0 {
        let r = w.node.as_ref().unwrap().advance(&prv, advance);
        let in_range = (counter as u128 + advance as u128) < total;
        match r {
            Some(newprv) if in_range => {
                let want = model::prv_blob(&cfg.params, counter + advance, &cfg.seed);
                if newprv != want {
                    w.violate("C13", "handover-advance", "handover", format!("hash-sigs advanced counter {} by {} to {} (expected {})", counter, advance, short_hex(&newprv), short_hex(&want)));
                    // model disagreement with the second implementation is a harness matter
                }
                prv = newprv;
                counter += advance;
                log.push_str(&format!(" advanced->{}", counter));
            }
            _ => {
                log.push_str(" advance-refused-or-exhausted");
                w.event(log);
                return;
            }
        }
    }
    let aux = w.keys[ki].aux.first().cloned().flatten();
    for i in 0..msgs {
        if (counter as u128) >= total {
            break;
        }
        let msg = content(20 + i as usize, (w.op_index as u64) << 8 | i as u64);
        let r = w.node.as_ref().unwrap().sign(&prv, aux.as_deref().filter(|a| !a.is_empty() && a[0] != 0), &msg);
        w.oracle_evaluated();
        let (sig, newprv) = match r {
            Some(x) => x,
            None if w.node.as_ref().unwrap().take_timeout() => {
                w.rep.stats.probe("hash-sigs-timeout");
                log.push_str(" timeout");
                break;
            }
            None => {
                w.violate("C13", "handover-hash-sigs-refuses", "handover", format!("hash-sigs refuses the library's key file at counter {}: {}", counter, short_hex(&prv)));
                log.push_str(" sign-refused");
                break;
            }
        };
        // each implementation must verify the other's signatures
        for e in ALL_ENTRIES {
            match lib::verify(cfg.hash, e, &msg, &sig, &w.keys[ki].pubk) {
                Outcome::Ok(()) => {}
                o => {
                    w.violate("C02", format!("rejects-valid:hash-sigs-made:{:?}", e), "rfc-verdict", format!("{:?} says {} for a signature hash-sigs made at counter {}", e, o.describe(), counter));
                    w.violate("C13", "handover-verify", "handover", format!("the library rejects hash-sigs' signature at counter {}", counter));
                }
            }
            w.rep.stats.verifications += 1;
        }
        // the model (hash-sigs randomizer convention) predicts it byte for byte
        let want = w.keys[ki].model.sign(counter, &msg, LsPolicy::Rfc, CConv::HashSigs);
        if want.as_deref() != Some(&sig[..]) {
            w.rep.stats.probe("model-differs-from-hash-sigs");
        }
        match model::split_signature(cfg.hash.spec(), &sig, false) {
            Ok(parts) => {
                let want_q = model::leaves_of(&hts, counter).unwrap();
                let got: Vec<u32> = parts.iter().map(|p| p.q).collect();
                if got != want_q {
                    w.violate("C13", "handover-leaves", "handover", format!("hash-sigs used leaves {:?} for counter {}, the mixed-radix rule gives {:?}", got, counter, want_q));
                }
                let pubk = w.keys[ki].pubk.clone();
                w.ledger_check(ki, &parts, &pubk, &msg, "hash-sigs");
            }
            Err(e) => w.violate("C13", "handover-unparseable", "handover", format!("hash-sigs signature does not parse: {}", e)),
        }
        let exhausted = (counter as u128) + 1 == total;
        if !exhausted && newprv != model::prv_blob(&cfg.params, counter + 1, &cfg.seed) {
            w.violate("C13", "handover-successor", "handover", format!("hash-sigs wrote {} after counter {}", short_hex(&newprv), counter));
        }
        w.keys[ki].releases.push(Release { counter, msg, sig, by_hashsigs: true });
        let hi = w.keys[ki].ledger_high.map_or(counter, |h| h.max(counter));
        w.keys[ki].ledger_high = Some(hi);
        w.rep.stats.probe("hash-sigs-signed-from-shared-key-file");
        prv = newprv;
        counter += 1;
        log.push_str(&format!(" signed@{}", counter - 1));
    }
    w.keys[ki].prv = prv;
    w.keys[ki].lifetime_seen = None;
    w.event(log);
}
