//! Counter arithmetic through the hook accessors (C13 (a), C05 (b)) and the keygen comparison with the
//! hash-sigs binary (C08).

use crate::exec::World;
use crate::hashsigs::Node;
use crate::lib_iface::HashId;
#[cfg(feature = "hooks")]
use crate::lib_iface::Outcome;
use crate::model;
use crate::util::hex;

#[cfg(feature = "hooks")]
pub fn op_arith(w: &mut World, heights: &[u8], start: u64, steps: u8) {
    use crate::lib_iface::arith;
    if heights.is_empty() || heights.len() > crate::BUILD_MAX_LEVELS {
        return;
    }
    let hts: Vec<u32> = heights.iter().map(|&h| h as u32).collect();
    let total: u32 = hts.iter().sum();
    w.rep.stats.shapes.insert(format!("heights:{:?}", heights));
    if total >= 64 {
        w.rep.stats.probe("tall-shape(sum>=64)");
    }
    // the history starts from an injected persisted state (a counter at or around a radix boundary, the last
    // leaf, beyond it, or a random one) and round-trips through its 8-byte encoding at every step
    w.fault("counter-state-injected");
    let mut c = start;
    let mut log = format!("arith {:?} start={}:", heights, start);
    for step in 0..=steps {
        w.oracle_evaluated();
        // persist / reload: the counter travels as 8 bytes big endian
        c = u64::from_be_bytes(c.to_be_bytes());
        let in_range = total >= 64 || (c as u128) < model::total_leaves(&hts);
        // --- leaves ---
        match arith::leaves(heights, c) {
            Outcome::Ok(got) => {
                // digits of the 64-bit counter; digits beyond bit 63 read zero
                let mut want = vec![0u32; hts.len()];
                let mut cc = c as u128;
                for (k, &h) in hts.iter().enumerate().rev() {
                    want[k] = (cc & ((1u128 << h) - 1)) as u32;
                    cc >>= h;
                }
                if got != want && in_range {
                    w.violate("C13", "arith-leaves", "mixed-radix", format!("heights {:?} counter {}: leaves {:?}, the digit rule gives {:?}", heights, c, got, want));
                    w.violate("C05", "arith-leaves", "mixed-radix", format!("heights {:?} counter {}: leaves {:?}, the digit rule gives {:?}", heights, c, got, want));
                }
            }
            Outcome::Panic(site) => {
                *w.rep.stats.panics_seen.entry(site.clone()).or_insert(0) += 1;
                w.violate("C13", format!("panic:{}", site), "arith-total", format!("leaf selection panicked at {} for heights {:?} counter {}", site, heights, c));
            }
            _ => {}
        }
        // --- lifetime ---
        if in_range {
            match arith::lifetime(heights, c) {
                Outcome::Ok(got) => {
                    if total < 64 {
                        let want = (model::total_leaves(&hts) - c as u128) as u64;
                        if got != want {
                            w.violate("C13", "arith-lifetime", "lifetime", format!("heights {:?} counter {}: lifetime {} expected {}", heights, c, got, want));
                            w.violate("C05", "arith-lifetime", "lifetime", format!("heights {:?} counter {}: lifetime {} expected {}", heights, c, got, want));
                        }
                    } else if got == 0 {
                        w.violate("C13", "arith-lifetime-zero-tall", "tall-key", format!("heights {:?} counter {}: lifetime reported as 0 while leaves remain", heights, c));
                    }
                }
                Outcome::Panic(site) => {
                    *w.rep.stats.panics_seen.entry(site.clone()).or_insert(0) += 1;
                    let key = format!("panic:{}", site);
                    w.violate("C13", key.clone(), "arith-total", format!("lifetime arithmetic panicked at {} for heights {:?} (sum {}) counter {}", site, heights, total, c));
                    if total < 64 {
                        w.violate("C05", key, "arith-total", format!("lifetime arithmetic panicked at {} for heights {:?} counter {}", site, heights, c));
                    }
                }
                _ => {}
            }
        }
        if step == steps {
            break;
        }
        // --- successor ---
        match arith::increment(heights, c) {
            Outcome::Ok(next) => {
                if total < 64 {
                    let leaves = model::total_leaves(&hts);
                    if (c as u128) < leaves {
                        let want = if (c as u128) + 1 >= leaves { None } else { Some(c + 1) };
                        if next != want {
                            w.violate("C13", "arith-successor", "successor", format!("heights {:?}: successor of counter {} is {:?}, expected {:?}", heights, c, next, want));
                            w.violate("C05", "arith-successor", "successor", format!("heights {:?}: successor of counter {} is {:?}, expected {:?}", heights, c, next, want));
                        }
                        if want.is_none() {
                            w.rep.stats.probe("arith-exhaustion-reached");
                        }
                    } else if next.is_some() {
                        // a counter that names no leaf must not be advanced into further use
                        w.rep.stats.probe("arith-out-of-range-advanced");
                    }
                } else {
                    // tall: never exhausted early; at 2^64-1 a wipe is fine, a wrap to 0 is not
                    match next {
                        None if c != u64::MAX => w.violate("C13", "arith-tall-early-exhaustion", "tall-key", format!("heights {:?} (sum {}): counter {} reported exhausted", heights, total, c)),
                        Some(n) if c == u64::MAX => w.violate("C13", "arith-tall-wrap", "tall-key", format!("heights {:?}: counter 2^64-1 advanced to {}", heights, n)),
                        Some(n) if n != c + 1 => w.violate("C13", "arith-successor", "successor", format!("heights {:?}: successor of {} is {}", heights, c, n)),
                        _ => {}
                    }
                }
                match next {
                    Some(n) => c = n,
                    None => {
                        log.push_str(&format!(" exhausted@{}", c));
                        break;
                    }
                }
            }
            Outcome::Panic(site) => {
                *w.rep.stats.panics_seen.entry(site.clone()).or_insert(0) += 1;
                let key = format!("panic:{}", site);
                w.violate("C13", key.clone(), "arith-total", format!("increment panicked at {} for heights {:?} (sum {}) counter {}", site, heights, total, c));
                if total < 64 {
                    w.violate("C05", key, "arith-total", format!("increment panicked at {} for heights {:?} counter {}", site, heights, c));
                }
                break;
            }
            _ => break,
        }
    }
    log.push_str(&format!(" end={}", c));
    w.event(log);
}

#[cfg(not(feature = "hooks"))]
pub fn op_arith(_w: &mut World, _heights: &[u8], _start: u64, _steps: u8) {}

pub fn op_hs_keygen(w: &mut World, ki: usize) {
    if ki >= w.keys.len() || !w.keys[ki].generated {
        return;
    }
    let cfg = w.keys[ki].cfg.clone();
    if cfg.hash != HashId::Sha256_256 || cfg.params.iter().any(|p| p.1 < 5) {
        return;
    }
    if w.node.is_none() {
        w.node = Node::new();
    }
    let node = match w.node.as_ref() {
        Some(n) => n,
        None => {
            w.rep.stats.probe("hash-sigs-unavailable");
            return;
        }
    };
    let r = node.genkey(&cfg.params, &cfg.seed, 1000);
    w.fault("second-implementation-consulted");
    w.oracle_evaluated();
    let (hprv, hpub, _haux) = match r {
        Some(x) => x,
        None => {
            w.rep.stats.probe("hash-sigs-genkey-failed");
            return;
        }
    };
    w.rep.stats.probe("hash-sigs-genkey-compared");
    let fresh_prv = model::prv_blob(&cfg.params, 0, &cfg.seed);
    // the library's own output at generation time is what is compared; the durable prv may have
    // advanced since, so compare everything but the counter
    let lib_prv = w.keys[ki].prv.clone();
    let lib_pub = w.keys[ki].pubk.clone();
    if hprv.len() != lib_prv.len() || hprv[8..] != lib_prv[8..] || hprv != fresh_prv {
        w.violate("C08", "hash-sigs-prv", "hash-sigs-binary", format!("hash-sigs wrote private key {} for the same seed, the library {}", hex(&hprv), hex(&lib_prv)));
    }
    if hpub != lib_pub {
        w.violate("C08", "hash-sigs-pub", "hash-sigs-binary", format!("hash-sigs wrote public key {} for the same seed, the library {}", hex(&hpub), hex(&lib_pub)));
    }
    // the library-written aux file must be usable by hash-sigs (C10 (3))
    // (signing makes hash-sigs build every level's tree: only for shapes it can afford)
    let affordable = cfg.params.iter().all(|p| p.1 <= 10) && cfg.params.iter().filter(|p| p.1 == 10).count() <= 1;
    if let Some(Some(aux)) = w.keys[ki].aux.first().cloned() {
        if affordable && !aux.is_empty() && aux[0] != 0 {
            let msg = b"aux interop".to_vec();
            match w.node.as_ref().unwrap().sign(&fresh_prv, Some(&aux), &msg) {
                Some((sig, _)) => {
                    let ok = crate::lib_iface::verify(cfg.hash, crate::lib_iface::VerifyEntry::Fn, &msg, &sig, &lib_pub).is_ok();
                    if !ok {
                        w.violate("C10", "hash-sigs-aux-interop", "aux-layout", "hash-sigs signing from the library-written aux file produced a signature the library rejects");
                    }
                    w.rep.stats.probe("hash-sigs-signed-from-library-aux");
                }
                None if w.node.as_ref().unwrap().take_timeout() => w.rep.stats.probe("hash-sigs-timeout"),
                None => w.violate("C10", "hash-sigs-aux-interop", "aux-layout", "hash-sigs cannot sign with the library-written aux file"),
            }
        }
    }
    w.event(format!("hs-keygen k{} compared", ki));
}
