//! The only source of choice in the engine: splitmix64 seeding + xoshiro256** (own code, so the
//! stream can never change under us).  Consumed only by plan generators.

#[derive(Clone)]
pub struct Rng {
    s: [u64; 4],
}

pub fn splitmix64(x: &mut u64) -> u64 {
    *x = x.wrapping_add(0x9e3779b97f4a7c15);
    let mut z = *x;
    z = (z ^ (z >> 30)).wrapping_mul(0xbf58476d1ce4e5b9);
    z = (z ^ (z >> 27)).wrapping_mul(0x94d049bb133111eb);
    z ^ (z >> 31)
}

pub fn fnv1a(data: &[u8]) -> u64 {
    let mut h: u64 = 0xcbf29ce484222325;
    for b in data {
        h ^= *b as u64;
        h = h.wrapping_mul(0x100000001b3);
    }
    h
}

impl Rng {
    pub fn new(seed: u64) -> Self {
        let mut x = seed;
        let s = [splitmix64(&mut x), splitmix64(&mut x), splitmix64(&mut x), splitmix64(&mut x)];
        Rng { s }
    }
    /// run seed = splitmix64(VERIF_SEED ^ tag(profile)) + run_index
    pub fn for_run(verif_seed: u64, profile: &str, run: u64) -> Self {
        let mut x = verif_seed ^ fnv1a(profile.as_bytes());
        let base = splitmix64(&mut x);
        Rng::new(base.wrapping_add(run))
    }
    pub fn next_u64(&mut self) -> u64 {
        let result = self.s[1].wrapping_mul(5).rotate_left(7).wrapping_mul(9);
        let t = self.s[1] << 17;
        self.s[2] ^= self.s[0];
        self.s[3] ^= self.s[1];
        self.s[1] ^= self.s[2];
        self.s[0] ^= self.s[3];
        self.s[2] ^= t;
        self.s[3] = self.s[3].rotate_left(45);
        result
    }
    /// uniform in 0..n (n > 0)
    pub fn below(&mut self, n: u64) -> u64 {
        debug_assert!(n > 0);
        // multiply-shift; bias is irrelevant here
        ((self.next_u64() as u128 * n as u128) >> 64) as u64
    }
    pub fn range(&mut self, lo: u64, hi_incl: u64) -> u64 {
        lo + self.below(hi_incl - lo + 1)
    }
    pub fn chance(&mut self, num: u64, den: u64) -> bool {
        self.below(den) < num
    }
    pub fn pick<'a, T>(&mut self, xs: &'a [T]) -> &'a T {
        &xs[self.below(xs.len() as u64) as usize]
    }
    pub fn weighted<'a, T>(&mut self, xs: &'a [(u64, T)]) -> &'a T {
        let total: u64 = xs.iter().map(|x| x.0).sum();
        let mut r = self.below(total);
        for (w, t) in xs {
            if r < *w {
                return t;
            }
            r -= *w;
        }
        &xs[xs.len() - 1].1
    }
    pub fn bytes(&mut self, n: usize) -> Vec<u8> {
        let mut v = Vec::with_capacity(n + 8);
        while v.len() < n {
            v.extend_from_slice(&self.next_u64().to_le_bytes());
        }
        v.truncate(n);
        v
    }
}

/// Deterministic message content from (length, content seed) — part of a plan, not of the PRNG.
pub fn content(len: usize, cseed: u64) -> Vec<u8> {
    Rng::new(cseed ^ 0x6d65_7373_6167_65).bytes(len)
}
