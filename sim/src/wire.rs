//! Transport between signers and verifiers: envelopes, delivery faults, verdict oracles (C02, C06).

use crate::exec::{frac, World};
use crate::lib_iface::{self as lib, HashId, Outcome, VerifyEntry, H2_KNOWN};
use crate::model::{self, verify::VerifyCfg, LmsPart, LsPolicy};
use crate::plan::*;
use crate::rng::Rng;
use crate::util::{hex, short_hex};

pub fn fault_name(f: &WireFault) -> &'static str {
    match f {
        WireFault::None => "intact",
        WireFault::Drop => "drop",
        WireFault::Dup => "dup",
        WireFault::SigBit { .. } => "sig-bitflip",
        WireFault::SigByte { .. } => "sig-setbyte",
        WireFault::SigBitAt { .. } => "sig-bitflip-at",
        WireFault::PkBitAt { .. } => "pk-bitflip-at",
        WireFault::FieldBit { .. } => "field-bitflip",
        WireFault::FieldU32 { .. } => "setfield-u32",
        WireFault::FieldByte { .. } => "setfield-byte",
        WireFault::SigTruncate { .. } | WireFault::SigTruncateTo { .. } => "sig-truncate",
        WireFault::SigExtend { .. } => "sig-extend",
        WireFault::PkBit { .. } => "pk-bitflip",
        WireFault::PkFieldU32 { .. } => "pk-setfield-u32",
        WireFault::PkFieldByte { .. } => "pk-setfield-byte",
        WireFault::PkTruncateTo { .. } => "pk-truncate",
        WireFault::PkExtend { .. } => "pk-extend",
        WireFault::SigPadTo { .. } => "sig-pad-to",
        WireFault::PkPadTo { .. } => "pk-pad-to",
        WireFault::MsgBit { .. } => "msg-bitflip",
        WireFault::MsgTruncate { .. } => "msg-truncate",
        WireFault::MsgExtend { .. } => "msg-extend",
        WireFault::Splice { .. } => "splice-field",
        WireFault::SpliceElement { .. } => "splice-element",
        WireFault::SwapMessage { .. } => "swap-message",
        WireFault::SwapKey { .. } => "swap-key",
        WireFault::SwapHash { .. } => "swap-hash",
        WireFault::LevelCut { .. } => "level-cut",
        WireFault::LevelGrow { .. } => "level-grow",
        WireFault::RawSig { .. } => "raw-sig",
        WireFault::RawPk { .. } => "raw-pk",
        WireFault::ModelMade => "model-made",
        WireFault::Chain { .. } => "chain-of-elements",
        WireFault::Synthetic { .. } => "synthetic-structure",
        WireFault::Graft { .. } => "chain-extension",
    }
}

pub fn op_send(w: &mut World, key: usize, release: usize) {
    if key >= w.keys.len() || w.keys[key].releases.is_empty() {
        w.event(format!("send k{} skipped", key));
        return;
    }
    let k = &w.keys[key];
    let r = if release == usize::MAX { &k.releases[k.releases.len() - 1] } else { &k.releases[release % k.releases.len()] };
    let env = crate::exec::Envelope { key, counter: r.counter, msg: r.msg.clone(), sig: r.sig.clone() };
    w.event(format!("send k{} release#{} counter={} -> env{}", key, release % k.releases.len(), env.counter, w.envelopes.len()));
    w.envelopes.push(env);
}

/// (offset, length) of a field inside a well-formed signature.
pub fn field_range(n: usize, parts: &[LmsPart], f: Field) -> Option<(usize, usize)> {
    let lvl = |l: u8| parts.get(l as usize);
    Some(match f {
        Field::Nspk => (0, 4),
        Field::Q(l) => (lvl(l)?.offset, 4),
        Field::OtsType(l) => (lvl(l)?.offset + 4, 4),
        Field::C(l) => (lvl(l)?.offset + 8, n),
        Field::Y(l) => (lvl(l)?.offset + 8 + n, lvl(l)?.y.len()),
        Field::LmsType(l) => {
            let p = lvl(l)?;
            (p.offset + 8 + n + p.y.len(), 4)
        }
        Field::Path(l) => {
            let p = lvl(l)?;
            (p.offset + 12 + n + p.y.len(), p.path.len())
        }
        Field::ChildLmsType(l) | Field::ChildOtsType(l) | Field::ChildI(l) | Field::ChildRoot(l) => {
            let p = lvl(l)?;
            if p.child_pub.is_empty() {
                return None;
            }
            let base = p.offset + 12 + n + p.y.len() + p.path.len();
            match f {
                Field::ChildLmsType(_) => (base, 4),
                Field::ChildOtsType(_) => (base + 4, 4),
                Field::ChildI(_) => (base + 8, 16),
                _ => (base + 24, n),
            }
        }
    })
}
fn element_range(n: usize, parts: &[LmsPart], l: u8) -> Option<(usize, usize)> {
    let p = parts.get(l as usize)?;
    Some((p.offset, 12 + n + p.y.len() + p.path.len() + p.child_pub.len()))
}
fn pk_field_range(n: usize, f: PkField) -> (usize, usize) {
    match f {
        PkField::Levels => (0, 4),
        PkField::LmsType => (4, 4),
        PkField::OtsType => (8, 4),
        PkField::I => (12, 16),
        PkField::Root => (28, n),
    }
}

pub struct Mutated {
    pub hash: HashId,
    pub msg: Vec<u8>,
    pub sig: Vec<u8>,
    pub pk: Vec<u8>,
    /// the fault changed at least one byte / the routing
    pub fired: bool,
    pub skipped: bool,
}

pub fn apply_fault(w: &World, env: usize, fault: &WireFault) -> Mutated {
    let e = &w.envelopes[env];
    let hash = w.keys[e.key].cfg.hash;
    let hs = hash.spec();
    let n = hs.n;
    let mut m = Mutated { hash, msg: e.msg.clone(), sig: e.sig.clone(), pk: w.keys[e.key].pubk.clone(), fired: false, skipped: false };
    let orig = (m.hash, m.msg.clone(), m.sig.clone(), m.pk.clone());
    let parts = model::split_signature(hs, &e.sig, H2_KNOWN).ok();
    let other_env = |i: usize| &w.envelopes[i % w.envelopes.len()];
    match fault {
        WireFault::None | WireFault::Drop | WireFault::Dup => {}
        WireFault::SigBit { pos, bit } => {
            if !m.sig.is_empty() {
                let p = frac(*pos, m.sig.len());
                m.sig[p] ^= 1 << (bit % 8);
            }
        }
        WireFault::SigBitAt { byte, bit } => {
            if *byte < m.sig.len() {
                m.sig[*byte] ^= 1 << (bit % 8);
            } else {
                m.skipped = true;
            }
        }
        WireFault::PkBitAt { byte, bit } => {
            if *byte < m.pk.len() {
                m.pk[*byte] ^= 1 << (bit % 8);
            } else {
                m.skipped = true;
            }
        }
        WireFault::SigByte { pos, val } => {
            if !m.sig.is_empty() {
                let p = frac(*pos, m.sig.len());
                m.sig[p] = *val;
            }
        }
        WireFault::FieldBit { field, pos, bit } => match parts.as_ref().and_then(|p| field_range(n, p, *field)) {
            Some((off, len)) if len > 0 => {
                let p = off + frac(*pos, len);
                m.sig[p] ^= 1 << (bit % 8);
            }
            _ => m.skipped = true,
        },
        WireFault::FieldU32 { field, val } => match parts.as_ref().and_then(|p| field_range(n, p, *field)) {
            Some((off, 4)) => m.sig[off..off + 4].copy_from_slice(&val.to_be_bytes()),
            _ => m.skipped = true,
        },
        WireFault::FieldByte { field, idx, val } => match parts.as_ref().and_then(|p| field_range(n, p, *field)) {
            Some((off, len)) if len > 0 => m.sig[off + (*idx as usize % len)] = *val,
            _ => m.skipped = true,
        },
        WireFault::SigTruncate { len } => {
            let l = frac(*len, m.sig.len());
            m.sig.truncate(l);
        }
        WireFault::SigTruncateTo { len } => m.sig.truncate(*len),
        WireFault::SigExtend { bytes } => m.sig.extend_from_slice(bytes),
        WireFault::PkBit { pos, bit } => {
            if !m.pk.is_empty() {
                let p = frac(*pos, m.pk.len());
                m.pk[p] ^= 1 << (bit % 8);
            }
        }
        WireFault::PkFieldU32 { field, val } => {
            let (off, len) = pk_field_range(n, *field);
            if len == 4 && m.pk.len() >= off + 4 {
                m.pk[off..off + 4].copy_from_slice(&val.to_be_bytes());
            } else {
                m.skipped = true;
            }
        }
        WireFault::PkFieldByte { field, idx, val } => {
            let (off, len) = pk_field_range(n, *field);
            let p = off + (*idx as usize % len);
            if p < m.pk.len() {
                m.pk[p] = *val;
            }
        }
        WireFault::PkTruncateTo { len } => m.pk.truncate(*len),
        WireFault::PkExtend { bytes } => m.pk.extend_from_slice(bytes),
        WireFault::SigPadTo { len, val } => {
            if *len > m.sig.len() {
                m.sig.resize(*len, *val);
            } else {
                m.skipped = true;
            }
        }
        WireFault::PkPadTo { len, val } => {
            if *len > m.pk.len() {
                m.pk.resize(*len, *val);
            } else {
                m.skipped = true;
            }
        }
        WireFault::MsgBit { pos, bit } => {
            if m.msg.is_empty() {
                m.msg.push(1 << (bit % 8));
            } else {
                let p = frac(*pos, m.msg.len());
                m.msg[p] ^= 1 << (bit % 8);
            }
        }
        WireFault::MsgTruncate { len } => {
            let l = frac(*len, m.msg.len());
            m.msg.truncate(l);
        }
        WireFault::MsgExtend { bytes } => m.msg.extend_from_slice(bytes),
        WireFault::Splice { other, field, other_field } => {
            let o = other_env(*other);
            let ohs = w.keys[o.key].cfg.hash.spec();
            let oparts = model::split_signature(ohs, &o.sig, H2_KNOWN).ok();
            match (parts.as_ref().and_then(|p| field_range(n, p, *field)), oparts.as_ref().and_then(|p| field_range(ohs.n, p, *other_field))) {
                (Some((off, len)), Some((ooff, olen))) => {
                    let donor = o.sig[ooff..ooff + olen].to_vec();
                    if len == olen {
                        m.sig[off..off + len].copy_from_slice(&donor);
                    } else {
                        // different sizes (other hash / other w / other h): replace, lengths change
                        m.sig.splice(off..off + len, donor);
                    }
                }
                _ => m.skipped = true,
            }
        }
        WireFault::SpliceElement { other, lvl, other_lvl } => {
            let o = other_env(*other);
            let ohs = w.keys[o.key].cfg.hash.spec();
            let oparts = model::split_signature(ohs, &o.sig, H2_KNOWN).ok();
            match (parts.as_ref().and_then(|p| element_range(n, p, *lvl)), oparts.as_ref().and_then(|p| element_range(ohs.n, p, *other_lvl))) {
                (Some((off, len)), Some((ooff, olen))) => {
                    let donor = o.sig[ooff..ooff + olen].to_vec();
                    m.sig.splice(off..off + len, donor);
                }
                _ => m.skipped = true,
            }
        }
        WireFault::SwapMessage { other } => m.msg = other_env(*other).msg.clone(),
        WireFault::SwapKey { other } => m.pk = w.keys[other_env(*other).key].pubk.clone(),
        WireFault::SwapHash { hash } => m.hash = *hash,
        WireFault::LevelCut { adjust_pk } => match parts.as_ref() {
            Some(p) if p.len() >= 2 => {
                let last = &p[p.len() - 1];
                let prev = &p[p.len() - 2];
                m.msg = prev.child_pub.clone();
                let cut_at = last.offset - prev.child_pub.len();
                m.sig.truncate(cut_at);
                let nspk = (p.len() - 2) as u32;
                m.sig[0..4].copy_from_slice(&nspk.to_be_bytes());
                if *adjust_pk && m.pk.len() >= 4 {
                    m.pk[0..4].copy_from_slice(&((p.len() - 1) as u32).to_be_bytes());
                }
            }
            _ => m.skipped = true,
        },
        WireFault::LevelGrow { adjust_pk, other } => match parts.as_ref() {
            Some(p) => {
                let o = other_env(*other);
                let opk = &w.keys[o.key].pubk;
                let ohs = w.keys[o.key].cfg.hash.spec();
                if let (Ok(op), true) = (model::split_signature(ohs, &o.sig, H2_KNOWN), opk.len() > 4) {
                    let olast = &op[op.len() - 1];
                    m.sig[0..4].copy_from_slice(&(p.len() as u32).to_be_bytes());
                    m.sig.extend_from_slice(&opk[4..]);
                    m.sig.extend_from_slice(&o.sig[olast.offset..]);
                    m.msg = o.msg.clone();
                    if *adjust_pk && m.pk.len() >= 4 {
                        m.pk[0..4].copy_from_slice(&((p.len() + 1) as u32).to_be_bytes());
                    }
                } else {
                    m.skipped = true;
                }
            }
            None => m.skipped = true,
        },
        WireFault::RawSig { delta, cseed } => {
            let l = (m.sig.len() as i64 + *delta as i64).max(0) as usize;
            m.sig = Rng::new(*cseed).bytes(l);
        }
        WireFault::RawPk { delta, cseed } => {
            let l = (m.pk.len() as i64 + *delta as i64).max(0) as usize;
            m.pk = Rng::new(*cseed).bytes(l);
        }
        WireFault::Chain { n: count, adjust_pk } => match parts.as_ref() {
            Some(p) if m.pk.len() > 4 => {
                let last = &p[p.len() - 1];
                let lastsig = e.sig[last.offset..].to_vec();
                let mut s = count.to_be_bytes().to_vec();
                for _ in 0..*count {
                    s.extend_from_slice(&lastsig);
                    s.extend_from_slice(&m.pk[4..]);
                }
                s.extend_from_slice(&lastsig);
                m.sig = s;
                if *adjust_pk {
                    m.pk[0..4].copy_from_slice(&(count + 1).to_be_bytes());
                }
            }
            _ => m.skipped = true,
        },
        WireFault::Synthetic { params, cseed, adjust_pk } => {
            let mut r = Rng::new(*cseed);
            let mut s = ((params.len() as u32).wrapping_sub(1)).to_be_bytes().to_vec();
            let codes: Option<Vec<(u32, u32)>> = params.iter().map(|&(wv, hv)| Some((model::ots_code(wv)?, model::lms_code(hv)?))).collect();
            match codes {
                Some(codes) if !codes.is_empty() => {
                    for (i, (&(wv, hv), &(oc, lc))) in params.iter().zip(codes.iter()).enumerate() {
                        let p_chains = model::ots_params(n, wv).3;
                        let q = if hv >= 32 { r.next_u64() as u32 } else { (r.next_u64() % (1u64 << hv)) as u32 };
                        s.extend_from_slice(&q.to_be_bytes());
                        s.extend_from_slice(&oc.to_be_bytes());
                        s.extend_from_slice(&r.bytes(n * (1 + p_chains)));
                        s.extend_from_slice(&lc.to_be_bytes());
                        s.extend_from_slice(&r.bytes(n * hv as usize));
                        if i + 1 < params.len() {
                            s.extend_from_slice(&codes[i + 1].1.to_be_bytes());
                            s.extend_from_slice(&codes[i + 1].0.to_be_bytes());
                            s.extend_from_slice(&r.bytes(16 + n));
                        }
                    }
                    m.sig = s;
                    if *adjust_pk {
                        let mut pk = (params.len() as u32).to_be_bytes().to_vec();
                        pk.extend_from_slice(&codes[0].1.to_be_bytes());
                        pk.extend_from_slice(&codes[0].0.to_be_bytes());
                        pk.extend_from_slice(&r.bytes(16 + n));
                        m.pk = pk;
                    }
                }
                _ => m.skipped = true,
            }
        }
        WireFault::Graft { child_env } => {
            let b = other_env(*child_env);
            let bpk = &w.keys[b.key].pubk;
            if e.msg.len() == 24 + n && m.sig.len() > 4 && b.sig.len() > 4 && m.pk.len() >= 4 && bpk.len() >= 4 && w.keys[b.key].cfg.hash.n() == n {
                let nspk_a = u32::from_be_bytes([e.sig[0], e.sig[1], e.sig[2], e.sig[3]]);
                let nspk_b = u32::from_be_bytes([b.sig[0], b.sig[1], b.sig[2], b.sig[3]]);
                let la = u32::from_be_bytes([m.pk[0], m.pk[1], m.pk[2], m.pk[3]]);
                let lb = u32::from_be_bytes([bpk[0], bpk[1], bpk[2], bpk[3]]);
                let mut s = (nspk_a.wrapping_add(1).wrapping_add(nspk_b)).to_be_bytes().to_vec();
                s.extend_from_slice(&e.sig[4..]);
                s.extend_from_slice(&e.msg);
                s.extend_from_slice(&b.sig[4..]);
                m.sig = s;
                m.msg = b.msg.clone();
                m.pk[0..4].copy_from_slice(&la.wrapping_add(lb).to_be_bytes());
            } else {
                m.skipped = true;
            }
        }
        WireFault::ModelMade => {
            let k = &w.keys[e.key];
            match k.model.sign(e.counter, &e.msg, LsPolicy::Rfc, model::CConv::Library) {
                Some(s) => m.sig = s,
                None => m.skipped = true,
            }
        }
    }
    m.fired = (m.hash, &m.msg, &m.sig, &m.pk) != (orig.0, &orig.1, &orig.2, &orig.3);
    m
}

/// K1 pairs (n, w) that occur among the LM-OTS types a triple names.
fn k1_pairs_in(hash: HashId, sig: &[u8], pk: &[u8]) -> Vec<(usize, u32)> {
    let n = hash.n();
    let mut ws = vec![];
    if let Ok(parts) = model::split_signature(hash.spec(), sig, H2_KNOWN) {
        for p in parts {
            if let Some(w) = model::ots_w(p.ots_code) {
                ws.push(w);
            }
        }
    }
    if pk.len() >= 12 {
        if let Some(w) = model::ots_w(u32::from_be_bytes(pk[8..12].try_into().unwrap())) {
            ws.push(w);
        }
    }
    ws.sort();
    ws.dedup();
    ws.into_iter().filter(|&w| model::is_k1(n, w)).map(|w| (n, w)).collect()
}

pub fn op_deliver(w: &mut World, env: usize, fault: &WireFault, entry: VerifyEntry) {
    if w.envelopes.is_empty() {
        w.event("deliver skipped: nothing on the wire".into());
        return;
    }
    let env = env % w.envelopes.len();
    let m = apply_fault(w, env, fault);
    let name = fault_name(fault);
    if m.skipped {
        w.event(format!("deliver env{} {} skipped", env, name));
        return;
    }
    if matches!(fault, WireFault::Drop) {
        w.fault("drop");
        w.event(format!("deliver env{} dropped", env));
        return;
    }
    if m.fired {
        w.fault(name);
    }
    let reps = if matches!(fault, WireFault::Dup) {
        w.fault("dup");
        2
    } else {
        1
    };
    for _ in 0..reps {
        deliver_one(w, env, name, &m, entry, matches!(fault, WireFault::None | WireFault::Dup));
    }
}

pub fn work_budget(sig: &[u8]) -> u64 {
    // L * (p*(2^w-1) + h + 3), with the most expensive parameters a signature can name, x2 slack
    let nspk = if sig.len() >= 4 { u32::from_be_bytes(sig[0..4].try_into().unwrap()) } else { 0 };
    let l = (nspk as u64).min(7) + 1;
    2 * l * (34 * 255 + 265 * 1 + 25 + 3) + 64
}

pub fn deliver_one(w: &mut World, env: usize, name: &str, m: &Mutated, entry: VerifyEntry, intact: bool) {
    lib::meter_reset();
    let verdict = lib::verify(m.hash, entry, &m.msg, &m.sig, &m.pk);
    let work = lib::meter_read();
    w.rep.stats.hash_finalisations += work;
    w.rep.stats.deliveries += 1;
    w.rep.stats.verifications += 1;
    let hs = m.hash.spec();
    let rfc = model::verify::hss_verify(hs, &m.msg, &m.sig, &m.pk, &VerifyCfg { h2_known: H2_KNOWN, ls: LsPolicy::Rfc });
    w.event(format!(
        "deliver env{} {} via {:?} hash={:?} sig={}B pk={}B msg={}B -> lib={} model={}",
        env,
        name,
        entry,
        m.hash,
        m.sig.len(),
        m.pk.len(),
        m.msg.len(),
        verdict.describe(),
        match &rfc {
            Ok(()) => "accept".to_string(),
            Err(r) => format!("{:?}", r),
        }
    ));
    w.oracle_evaluated();

    // ---- C06: totality ----
    if let Outcome::Panic(site) = &verdict {
        let site = site.clone();
        *w.rep.stats.panics_seen.entry(site.clone()).or_insert(0) += 1;
        w.violate(
            "C06",
            format!("panic:{}", site),
            "verify-total",
            format!("{:?} panicked at {} on {} (signature {} bytes: {}, public key {} bytes: {})", entry, site, name, m.sig.len(), short_hex(&m.sig), m.pk.len(), hex(&m.pk)),
        );
    }
    if m.hash.metered() && work > work_budget(&m.sig) {
        w.violate("C06", "work-budget", "verify-terminates", format!("verification used {} hash finalisations, budget {}", work, work_budget(&m.sig)));
    }

    // ---- C02: verdict equality with the RFC verifier (a panic counts as reject here) ----
    let lib_accepts = verdict.is_ok();
    let rfc_accepts = rfc.is_ok();
    if lib_accepts && !intact {
        w.rep.stats.probe("mutated-triple-accepted-by-both-or-lib");
    }
    if lib_accepts != rfc_accepts {
        // finding-adjusted model for exactly the K1 pairs
        let pairs = k1_pairs_in(m.hash, &m.sig, &m.pk);
        let adj = model::verify::hss_verify(hs, &m.msg, &m.sig, &m.pk, &VerifyCfg { h2_known: H2_KNOWN, ls: LsPolicy::K1Adjusted }).is_ok();
        if !pairs.is_empty() && adj == lib_accepts {
            for (n, wv) in pairs {
                w.violate(
                    "C02",
                    format!("lmots-ls:n={},w={}", n, wv),
                    "rfc-verdict",
                    format!("verifier uses checksum shift {} for (n={}, w={}) where Appendix B gives {}: library {} / RFC {} on {}", model::library_ls(n, wv), n, wv, model::ots_params(n, wv).2, if lib_accepts { "accepts" } else { "rejects" }, if rfc_accepts { "accepts" } else { "rejects" }, name),
                );
            }
        } else {
            let why = match &rfc {
                Ok(()) => "accepts".to_string(),
                Err(r) => format!("rejects ({:?})", r),
            };
            let key = if lib_accepts { format!("accepts-invalid:{}:{}", name, why.replace(' ', "")) } else { format!("rejects-valid:{}", name) };
            w.violate(
                "C02",
                key,
                "rfc-verdict",
                format!("{:?} {} but RFC 8554 verification {} — fault {} on env{} (signature {} bytes, public key {})", entry, if lib_accepts { "accepts" } else { "rejects" }, why, name, env, m.sig.len(), hex(&m.pk)),
            );
        }
    }
    if intact && !lib_accepts {
        w.violate("C01", format!("intact-delivery-rejected:{:?}", entry), "released-verifies", format!("intact envelope env{} rejected by {:?}: {}", env, entry, verdict.describe()));
    }
}
