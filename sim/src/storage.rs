//! Parameter-list faults for keygen (C11, C14): lists of any length 0..10.

use crate::exec::{shape_string, World};
use crate::lib_iface::{self as lib, Outcome};
use crate::model::{self, HssKey};
use crate::util::hex;

pub fn op_keygen_len(w: &mut World, ki: usize, len: usize) {
    let cfg = w.keys[ki].cfg.clone();
    let list: Vec<(u32, u32)> = (0..len).map(|i| cfg.params[i % cfg.params.len()]).collect();
    let out = lib::keygen(cfg.hash, &list, &cfg.seed, None);
    w.rep.stats.keygens += 1;
    w.event(format!("keygen-len k{} len={} -> {}", ki, len, out.describe()));
    w.oracle_evaluated();
    if len == 0 || len > 8 {
        w.fault(if len == 0 { "param-list-empty" } else { "param-list-too-long" });
    }
    let within_build = len <= crate::BUILD_MAX_LEVELS;
    match out {
        Outcome::Panic(site) => {
            *w.rep.stats.panics_seen.entry(site.clone()).or_insert(0) += 1;
            w.violate("C11", format!("panic:{}", site), "keygen-total", format!("keygen with a parameter list of {} levels panicked at {}", len, site));
            if !within_build || len > 8 {
                w.violate("C14", format!("panic:{}", site), "limits", format!("keygen with {} levels (build allows {}) panicked at {}", len, crate::BUILD_MAX_LEVELS, site));
            }
        }
        Outcome::Ok((prv, pubk)) => {
            if len == 0 || len > 8 {
                w.violate("C11", "keygen-ok-bad-list", "err-or-correct", format!("keygen accepted a parameter list of {} levels", len));
            } else {
                let key = HssKey { hs: cfg.hash.spec(), params: list.clone(), seed: cfg.seed.clone() };
                if prv != model::prv_blob(&list, 0, &cfg.seed) || pubk != key.public_key() {
                    w.violate("C11", "keygen-wrong-result", "err-or-correct", format!("keygen for {} returned prv {} pub {} which is not the model's key", shape_string(cfg.hash, &list), hex(&prv), hex(&pubk)));
                }
            }
        }
        Outcome::Err => {
            if (1..=8).contains(&len) && within_build && crate::BUILD_IS_DEFAULT {
                w.violate("C11", "keygen-err-valid-list", "err-or-correct", format!("keygen refused a valid {}-level list", len));
            }
        }
        Outcome::Crash => {}
    }
}
