use serde::{Deserialize, Deserializer, Serializer};

pub fn hex(b: &[u8]) -> String {
    let mut s = String::with_capacity(b.len() * 2);
    for x in b {
        s.push_str(&format!("{:02x}", x));
    }
    s
}
pub fn unhex(s: &str) -> Result<Vec<u8>, String> {
    if s.len() % 2 != 0 {
        return Err("odd hex length".into());
    }
    (0..s.len() / 2).map(|i| u8::from_str_radix(&s[2 * i..2 * i + 2], 16).map_err(|e| e.to_string())).collect()
}
/// serde helper: Vec<u8> as a hex string
pub mod hexs {
    use super::*;
    pub fn serialize<S: Serializer>(v: &Vec<u8>, s: S) -> Result<S::Ok, S::Error> {
        s.serialize_str(&hex(v))
    }
    pub fn deserialize<'de, D: Deserializer<'de>>(d: D) -> Result<Vec<u8>, D::Error> {
        let s = String::deserialize(d)?;
        unhex(&s).map_err(serde::de::Error::custom)
    }
}
pub fn short_hex(b: &[u8]) -> String {
    if b.len() <= 24 {
        hex(b)
    } else {
        format!("{}..{}({}B)", hex(&b[..8]), hex(&b[b.len() - 8..]), b.len())
    }
}
pub fn sha256(b: &[u8]) -> [u8; 32] {
    use sha2::Digest;
    sha2::Sha256::digest(b).into()
}
