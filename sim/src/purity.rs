//! Re-execution of an observed call in another context (C09): byte equality, no model involved.

use crate::exec::{OpRecord, World};
use crate::lib_iface::{self as lib, HashId, Outcome};
use crate::plan::Context;
use crate::util::{hex, unhex};
use serde::{Deserialize, Serialize};
use std::io::Write;
use std::process::{Command, Stdio};

#[derive(Serialize, Deserialize)]
pub struct ChildReq {
    pub kind: String,
    pub hash: HashId,
    pub params: Vec<(u32, u32)>,
    pub seed: String,
    pub prv: String,
    pub msg: String,
}
#[derive(Serialize, Deserialize)]
pub struct ChildResp {
    pub ok: bool,
    pub a: String,
    pub b: String,
}

/// The observed call, executed here (also used by the child process).
pub fn perform(kind: &str, hash: HashId, params: &[(u32, u32)], seed: &[u8], prv: &[u8], msg: &[u8], ctx: Context, via_obj: bool) -> Option<(Vec<u8>, Vec<u8>)> {
    match kind {
        "Keygen" => {
            let mut aux = vec![0u8; 3000];
            let out = match ctx {
                Context::WithAux => lib::keygen(hash, params, seed, Some(&mut aux)),
                _ => lib::keygen(hash, params, seed, None),
            };
            match out {
                Outcome::Ok((a, b)) => Some((a, b)),
                _ => None,
            }
        }
        "Sign" => {
            let mut succ = vec![];
            let out = match ctx {
                // the other entry point than the one the observed call used
                Context::OtherApi if !via_obj => match lib::signing_key_from_bytes(hash, prv) {
                    Outcome::Ok(mut o) => {
                        let r = o.try_sign(msg);
                        succ = o.bytes();
                        r
                    }
                    _ => return None,
                },
                Context::WithAux => {
                    let mut aux = vec![0u8; 3000];
                    lib::sign(hash, msg, prv, &mut |k: &[u8]| { succ = k.to_vec(); Ok(()) }, Some(&mut aux))
                }
                _ => lib::sign(hash, msg, prv, &mut |k: &[u8]| { succ = k.to_vec(); Ok(()) }, None),
            };
            match out {
                Outcome::Ok(sig) => Some((sig, succ)),
                _ => None,
            }
        }
        _ => None,
    }
}

pub fn child_main() {
    let mut s = String::new();
    std::io::Read::read_to_string(&mut std::io::stdin(), &mut s).unwrap();
    let req: ChildReq = serde_json::from_str(&s).expect("bad request");
    let r = perform(&req.kind, req.hash, &req.params, &unhex(&req.seed).unwrap(), &unhex(&req.prv).unwrap(), &unhex(&req.msg).unwrap(), Context::Again, false);
    let resp = match r {
        Some((a, b)) => ChildResp { ok: true, a: hex(&a), b: hex(&b) },
        None => ChildResp { ok: false, a: String::new(), b: String::new() },
    };
    println!("{}", serde_json::to_string(&resp).unwrap());
}

fn in_fresh_process(req: &ChildReq) -> Option<Option<(Vec<u8>, Vec<u8>)>> {
    let exe = std::env::current_exe().ok()?;
    let mut child = Command::new(exe).arg("exec-op").stdin(Stdio::piped()).stdout(Stdio::piped()).stderr(Stdio::null()).spawn().ok()?;
    child.stdin.take()?.write_all(serde_json::to_string(req).ok()?.as_bytes()).ok()?;
    let out = child.wait_with_output().ok()?;
    let resp: ChildResp = serde_json::from_slice(&out.stdout).ok()?;
    if !resp.ok {
        return Some(None);
    }
    Some(Some((unhex(&resp.a).ok()?, unhex(&resp.b).ok()?)))
}

pub fn sign_in_fresh_process(hash: HashId, params: &[(u32, u32)], seed: &[u8], prv: &[u8], msg: &[u8]) -> Option<Option<(Vec<u8>, Vec<u8>)>> {
    in_fresh_process(&ChildReq { kind: "Sign".to_string(), hash, params: params.to_vec(), seed: hex(seed), prv: hex(prv), msg: hex(msg) })
}

pub fn op_recheck(w: &mut World, op_ref: usize, ctx: Context) {
    let rec: OpRecord = match w.records.get(op_ref).cloned().flatten() {
        Some(r) => r,
        None => {
            w.event(format!("recheck op{} skipped", op_ref));
            return;
        }
    };
    let cfg = w.keys[rec.key].cfg.clone();
    let got = if matches!(ctx, Context::FreshProcess) {
        let req = ChildReq { kind: rec.kind.to_string(), hash: cfg.hash, params: cfg.params.clone(), seed: hex(&cfg.seed), prv: hex(&rec.prv_in), msg: hex(&rec.msg) };
        match in_fresh_process(&req) {
            Some(g) => {
                w.rep.stats.probe("fresh-process-recheck");
                g
            }
            None => {
                w.rep.stats.probe("fresh-process-unavailable");
                return;
            }
        }
    } else if matches!(ctx, Context::FreshThread) {
        // a real, newly spawned OS thread, joined at once: deterministic, and whatever the library keeps per
        // thread starts from scratch in it
        let (kind, hash, params, seed, prv, msg, via_obj) = (rec.kind, cfg.hash, cfg.params.clone(), cfg.seed.clone(), rec.prv_in.clone(), rec.msg.clone(), rec.via_obj);
        let h = std::thread::Builder::new().stack_size(256 << 20).spawn(move || perform(kind, hash, &params, &seed, &prv, &msg, Context::Again, via_obj));
        match h.map(|h| h.join()) {
            Ok(Ok(g)) => {
                w.rep.stats.probe("fresh-thread-recheck");
                g
            }
            _ => {
                w.rep.stats.probe("fresh-thread-unavailable");
                return;
            }
        }
    } else {
        perform(rec.kind, cfg.hash, &cfg.params, &cfg.seed, &rec.prv_in, &rec.msg, ctx, rec.via_obj)
    };
    w.fault(&format!("recheck-{:?}", ctx));
    w.oracle_evaluated();
    let same = match &got {
        Some((a, b)) => a == &rec.out_a && b == &rec.out_b,
        None => false,
    };
    w.event(format!("recheck op{} {:?} {:?} -> same={}", op_ref, rec.kind, ctx, same));
    if !same {
        let what = match &got {
            None => "the call failed".to_string(),
            Some((a, b)) => format!("{} {}", if a != &rec.out_a { if rec.kind == "Keygen" { "private key differs" } else { "signature differs" } } else { "" }, if b != &rec.out_b { if rec.kind == "Keygen" { "public key differs" } else { "successor key differs" } } else { "" }),
        };
        w.violate("C09", format!("impure:{}:{:?}", rec.kind, ctx), "purity", format!("{} repeated in context {:?} (op {}): {}", rec.kind, ctx, op_ref, what.trim()));
    }
}
