//! Check driver: anchors, negative controls, parallel seeded runs, known-findings triage,
//! minimisation, replay files, evidence.

use crate::exec::run_plan;
use crate::gen::{self, GenCtx};
use crate::plan::Plan;
use crate::report::{RunReport, Stats, Violation};
use crate::shrink;
use serde_json::{json, Value};
use std::collections::{BTreeMap, BTreeSet};
use std::path::{Path, PathBuf};
use std::sync::atomic::{AtomicUsize, Ordering};
use std::sync::{Arc, Mutex};
use std::time::Instant;

pub const DEFAULT_SEED: u64 = 20260923;

pub fn verif_dir() -> PathBuf {
    PathBuf::from(std::env::var("VERIF_DIR").unwrap_or_else(|_| "/verif".into()))
}
/// where evidence/ and replays/ are written: /verif, or VERIF_OUT for sensitivity runs against
/// scratch copies (so that they never overwrite the evidence of the real tree)
pub fn out_dir() -> PathBuf {
    std::env::var("VERIF_OUT").map(PathBuf::from).unwrap_or_else(|_| verif_dir())
}

#[derive(Clone, Debug)]
pub struct Known {
    pub property: String,
    pub key: String,
    pub text: String,
}
pub fn load_known() -> Vec<Known> {
    let p = std::env::var("VERIF_KNOWN").map(PathBuf::from).unwrap_or_else(|_| verif_dir().join("KNOWN_FINDINGS.txt"));
    let mut out = vec![];
    if let Ok(s) = std::fs::read_to_string(p) {
        for line in s.lines() {
            let line = line.trim();
            if let Some(rest) = line.strip_prefix("finding:") {
                let mut property = String::new();
                let mut key = String::new();
                let mut text = vec![];
                for tok in rest.split_whitespace() {
                    if let Some(v) = tok.strip_prefix("property=") {
                        property = v.to_string();
                    } else if let Some(v) = tok.strip_prefix("key=") {
                        key = v.to_string();
                    } else {
                        text.push(tok);
                    }
                }
                if !property.is_empty() && !key.is_empty() {
                    out.push(Known { property, key, text: text.join(" ") });
                }
            }
        }
    }
    out
}

pub struct Part {
    pub profile: &'static str,
    pub runs_quick: u64,
    pub runs_thorough: u64,
}

pub struct CheckSpec {
    pub property: &'static str,
    pub level: &'static str,
    pub parts: Vec<Part>,
    /// the part of the space that is enumerated completely, if any
    pub exhaustive_note: Option<&'static str>,
    pub rule: &'static str,
}

struct RunLite {
    idx: u64,
    profile: &'static str,
    violations: Vec<Violation>,
    signature: u64,
    event_hash: u64,
    nontrivial: bool,
    ops: usize,
    faults: u64,
}

/// runs in which the harness itself panicked (profile and run index)
static HARNESS_PANICS: Mutex<Vec<String>> = Mutex::new(Vec::new());

pub fn jobs() -> usize {
    std::env::var("VERIF_JOBS").ok().and_then(|s| s.parse().ok()).unwrap_or_else(|| std::thread::available_parallelism().map(|n| n.get()).unwrap_or(8))
}

/// Execute runs 0..n of a profile in parallel; the merged result does not depend on the worker
/// count (sums, set unions, and a list sorted by run index).
fn run_part(ctx: &GenCtx, profile: &'static str, n: u64, deadline: Option<Instant>) -> (Vec<RunLite>, Stats, u64) {
    let next = Arc::new(AtomicUsize::new(0));
    let out: Arc<Mutex<(Vec<RunLite>, Stats)>> = Arc::new(Mutex::new((vec![], Stats::default())));
    let skipped = Arc::new(AtomicUsize::new(0));
    let mut handles = vec![];
    for _ in 0..jobs() {
        let next = next.clone();
        let out = out.clone();
        let ctx = ctx.clone();
        let skipped = skipped.clone();
        handles.push(
            std::thread::Builder::new()
                .stack_size(256 << 20)
                .spawn(move || {
                    let mut local: Vec<RunLite> = vec![];
                    let mut stats = Stats::default();
                    loop {
                        let i = next.fetch_add(1, Ordering::SeqCst) as u64;
                        if i >= n {
                            break;
                        }
                        if let Some(d) = deadline {
                            if Instant::now() > d {
                                skipped.fetch_add(1, Ordering::SeqCst);
                                continue;
                            }
                        }
                        let plan = match gen::generate(&ctx, profile, i) {
                            Some(p) => p,
                            None => continue,
                        };
                        // "-proc" profiles: one fresh child process per run, so that the process history the
                        // library sees (statics, thread-locals, call counts) is a pure function of the plan
                        let rep: RunReport = if profile.ends_with("-proc") {
                            match run_plan_in_child(&plan) {
                                Some(r) => r,
                                None => {
                                    skipped.fetch_add(1, Ordering::SeqCst);
                                    continue;
                                }
                            }
                        } else {
                            // a panic of the harness itself (model, interpreter) in one run must not take the other
                            // runs' verdicts with it: the run is recorded as a harness error (exit 2 unless a
                            // violation is reported, which takes precedence)
                            match std::panic::catch_unwind(std::panic::AssertUnwindSafe(|| run_plan(&plan, false))) {
                                Ok(r) => r,
                                Err(_) => {
                                    HARNESS_PANICS.lock().unwrap().push(format!("{} run {}", profile, i));
                                    crate::model::clear_tree_cache();
                                    continue;
                                }
                            }
                        };
                        stats.merge(&rep.stats);
                        local.push(RunLite {
                            idx: i,
                            profile,
                            violations: rep.violations,
                            signature: rep.signature,
                            event_hash: rep.event_hash,
                            nontrivial: rep.stats.nontrivial,
                            ops: plan.ops.len(),
                            faults: rep.stats.fault_fired.values().sum(),
                        });
                    }
                    let mut g = out.lock().unwrap();
                    g.0.extend(local);
                    g.1.merge(&stats);
                })
                .expect("spawn"),
        );
    }
    for h in handles {
        h.join().expect("worker panicked (harness bug)");
    }
    let (mut runs, stats) = Arc::try_unwrap(out).ok().unwrap().into_inner().unwrap();
    runs.sort_by_key(|r| r.idx);
    (runs, stats, skipped.load(Ordering::SeqCst) as u64)
}

/// Serialisable subset of a run report, exchanged with `hss-sim exec-plan` children.
pub fn report_to_json(rep: &RunReport) -> Value {
    json!({
        "violations": rep.violations.iter().map(|v| json!({"property": v.property, "key": v.key, "oracle": v.oracle, "detail": v.detail, "op_index": v.op_index})).collect::<Vec<_>>(),
        "event_hash": rep.event_hash, "signature": rep.signature, "events": rep.events,
        "steps": rep.stats.steps, "sign_calls": rep.stats.sign_calls, "releases": rep.stats.releases, "keygens": rep.stats.keygens,
        "verifications": rep.stats.verifications, "oracle_evals": rep.stats.oracle_evals, "hash_finalisations": rep.stats.hash_finalisations,
        "fault_fired": rep.stats.fault_fired, "probes": rep.stats.probes, "nontrivial": rep.stats.nontrivial,
        "states": rep.stats.states.iter().collect::<Vec<_>>(), "shapes": rep.stats.shapes.iter().collect::<Vec<_>>(),
    })
}
pub fn report_from_json(j: &Value) -> Option<RunReport> {
    let mut rep = RunReport::default();
    for v in j["violations"].as_array()? {
        rep.violations.push(Violation {
            property: v["property"].as_str()?.to_string(),
            key: v["key"].as_str()?.to_string(),
            oracle: v["oracle"].as_str()?.to_string(),
            detail: v["detail"].as_str()?.to_string(),
            op_index: v["op_index"].as_u64()? as usize,
        });
    }
    rep.event_hash = j["event_hash"].as_u64()?;
    rep.signature = j["signature"].as_u64()?;
    rep.events = j["events"].as_array()?.iter().filter_map(|e| e.as_str().map(|s| s.to_string())).collect();
    let st = &mut rep.stats;
    st.steps = j["steps"].as_u64()?;
    st.sign_calls = j["sign_calls"].as_u64()?;
    st.releases = j["releases"].as_u64()?;
    st.keygens = j["keygens"].as_u64()?;
    st.verifications = j["verifications"].as_u64()?;
    st.oracle_evals = j["oracle_evals"].as_u64()?;
    st.hash_finalisations = j["hash_finalisations"].as_u64()?;
    st.nontrivial = j["nontrivial"].as_bool()?;
    for (k, v) in j["fault_fired"].as_object()? {
        st.fault_fired.insert(k.clone(), v.as_u64()?);
    }
    for (k, v) in j["probes"].as_object()? {
        st.probes.insert(k.clone(), v.as_u64()?);
    }
    for v in j["states"].as_array()? {
        st.states.insert(v.as_u64()?);
    }
    for v in j["shapes"].as_array()? {
        st.shapes.insert(v.as_str()?.to_string());
    }
    Some(rep)
}
/// `hss-sim exec-plan`: read a plan from stdin, execute it as the first thing this process does, print
/// the report.
pub fn exec_plan_main() -> i32 {
    let mut s = String::new();
    if std::io::Read::read_to_string(&mut std::io::stdin(), &mut s).is_err() {
        return 2;
    }
    let plan: Plan = match serde_json::from_str(&s) {
        Ok(p) => p,
        Err(_) => return 2,
    };
    let rep = run_plan(&plan, true);
    println!("{}", report_to_json(&rep));
    0
}
pub fn run_plan_in_child(plan: &Plan) -> Option<RunReport> {
    use std::io::Write;
    let exe = std::env::current_exe().ok()?;
    let mut child = std::process::Command::new(exe).arg("exec-plan").stdin(std::process::Stdio::piped()).stdout(std::process::Stdio::piped()).stderr(std::process::Stdio::null()).spawn().ok()?;
    child.stdin.take()?.write_all(serde_json::to_string(plan).ok()?.as_bytes()).ok()?;
    let out = child.wait_with_output().ok()?;
    let j: Value = serde_json::from_slice(&out.stdout).ok()?;
    report_from_json(&j)
}

fn repo_head() -> (String, bool) {
    let repo = crate::hashsigs::repo_dir();
    let head = std::process::Command::new("git").arg("-C").arg(&repo).args(["rev-parse", "HEAD"]).output().map(|o| String::from_utf8_lossy(&o.stdout).trim().to_string()).unwrap_or_default();
    let dirty = std::process::Command::new("git").arg("-C").arg(&repo).args(["status", "--porcelain"]).output().map(|o| !o.stdout.is_empty()).unwrap_or(false);
    (head, dirty)
}

pub fn write_replay(path: &Path, v: &Violation, plan: &Plan, events: &[String]) {
    let (head, dirty) = repo_head();
    let j = json!({
        "property": v.property, "oracle": v.oracle, "key": v.key, "detail": v.detail, "op_index": v.op_index,
        "verif_seed": plan.verif_seed, "run": plan.run, "profile": plan.profile,
        "plan": plan, "events": events, "repo_head": head, "repo_dirty": dirty,
        "build": {"max_levels": crate::BUILD_MAX_LEVELS, "tree_heights": crate::BUILD_TREE_HEIGHTS, "min_w": crate::BUILD_MIN_W, "default": crate::BUILD_IS_DEFAULT},
    });
    if let Some(d) = path.parent() {
        let _ = std::fs::create_dir_all(d);
    }
    std::fs::write(path, serde_json::to_string_pretty(&j).unwrap()).expect("write replay");
}

/// `hss-sim replay <file>`: re-execute; exit 1 with a VIOLATION line if the recorded violation
/// reproduces, 0 if it does not (e.g. after a repair).
pub fn replay(path: &str) -> i32 {
    let s = match std::fs::read_to_string(path) {
        Ok(s) => s,
        Err(e) => {
            eprintln!("cannot read {}: {}", path, e);
            return 2;
        }
    };
    let j: Value = serde_json::from_str(&s).expect("replay file is not JSON");
    let plan: Plan = serde_json::from_value(j["plan"].clone()).expect("replay file has no plan");
    if let Some(b) = j.get("build") {
        let same = b["max_levels"].as_u64() == Some(crate::BUILD_MAX_LEVELS as u64)
            && b["tree_heights"].as_array().map(|a| a.iter().filter_map(|x| x.as_u64()).map(|x| x as u32).collect::<Vec<_>>()) == Some(crate::BUILD_TREE_HEIGHTS.to_vec())
            && b["min_w"].as_array().map(|a| a.iter().filter_map(|x| x.as_u64()).map(|x| x as u32).collect::<Vec<_>>()) == Some(crate::BUILD_MIN_W.to_vec());
        if !same {
            eprintln!("this binary was built with other HBS_LMS_* knobs than the replay file needs ({}); use ./check replay, which rebuilds accordingly", b);
            return 3;
        }
    }
    let property = j["property"].as_str().unwrap_or("").to_string();
    let key = j["key"].as_str().unwrap_or("").to_string();
    let rep = run_plan(&plan, true);
    for e in &rep.events {
        println!("  {}", e);
    }
    let hit: Vec<&Violation> = rep.violations.iter().filter(|v| v.property == property && v.key == key).collect();
    if let Some(v) = hit.first() {
        println!("reproduced: property={} oracle={} key={} at op {}: {}", v.property, v.oracle, v.key, v.op_index, v.detail);
        println!("VIOLATION property={} replay={}", property, path);
        1
    } else {
        println!("not reproduced: property={} key={} (other violations in this run: {})", property, key, rep.violations.len());
        0
    }
}

pub fn run_check(spec: &CheckSpec, tier: &str, seed: u64) -> i32 {
    let t0 = Instant::now();
    let quick = tier == "quick";
    // 1. anchors
    let anchors = match crate::anchors::run(quick) {
        Ok(a) => a,
        Err(e) => {
            eprintln!("HARNESS ERROR: reference model anchor failed: {}", e);
            return 2;
        }
    };
    // 2. negative controls: the oracles must fire when the harness breaks a precondition
    if let Err(e) = crate::controls::run() {
        eprintln!("HARNESS ERROR: negative control did not fire: {}", e);
        return 2;
    }
    let known = load_known();
    let ctx = GenCtx { verif_seed: seed, quick };
    let budget_s: u64 = std::env::var("VERIF_BUDGET_S").ok().and_then(|s| s.parse().ok()).unwrap_or(if quick { 600 } else { 3600 });
    let deadline = Instant::now() + std::time::Duration::from_secs(budget_s);

    let mut all_runs: Vec<RunLite> = vec![];
    let mut stats = Stats::default();
    let mut per_part = vec![];
    let mut skipped_total = 0;
    for part in &spec.parts {
        let mut n = if quick { part.runs_quick } else { part.runs_thorough };
        // the hook-off twin repeats the enumerated parts in full and a third of the sampled ones
        if std::env::var("VERIF_TWIN").is_ok() && matches!(part.profile, "wire" | "lifecycle" | "lifecycle-full" | "aux" | "keygen" | "purity" | "handover") {
            n = (n / 3).max(1);
        }
        if n == 0 {
            continue;
        }
        let tp = Instant::now();
        let (runs, st, skipped) = run_part(&ctx, part.profile, n, Some(deadline));
        skipped_total += skipped;
        per_part.push(json!({"profile": part.profile, "runs": runs.len(), "skipped_for_time": skipped, "wall_s": tp.elapsed().as_secs_f64()}));
        stats.merge(&st);
        all_runs.extend(runs);
    }

    // 3. violations of this property: known vs new
    let mut known_hits: BTreeMap<String, (String, u64)> = BTreeMap::new();
    let mut fresh: BTreeMap<String, Vec<(&'static str, u64, Violation)>> = BTreeMap::new();
    let mut other_props: BTreeMap<String, u64> = BTreeMap::new();
    for r in &all_runs {
        for v in &r.violations {
            if v.property != spec.property {
                *other_props.entry(v.property.clone()).or_insert(0) += 1;
                continue;
            }
            // a C14 copy of a finding that the default build shows too (listed under its own
            // property) is not a difference between builds
            if v.property == "C14" {
                if let Some((orig, rest)) = v.key.split_once(':') {
                    if known.iter().any(|k| k.property == orig && k.key == rest) {
                        continue;
                    }
                }
            }
            if let Some(k) = known.iter().find(|k| k.property == v.property && k.key == v.key) {
                let e = known_hits.entry(v.key.clone()).or_insert((k.text.clone(), 0));
                e.1 += 1;
            } else {
                fresh.entry(v.key.clone()).or_default().push((r.profile, r.idx, v.clone()));
            }
        }
    }
    for (key, (text, count)) in &known_hits {
        println!("KNOWN-FINDING: property={} key={} {} (seen {} times)", spec.property, key, text, count);
    }

    // 4. minimise and report new violations
    let mut violation_lines = 0;
    let mut harness_error = false;
    {
        let hp = HARNESS_PANICS.lock().unwrap();
        if !hp.is_empty() {
            eprintln!("HARNESS ERROR: the harness itself panicked in {} run(s) (first: {}); reproduce with `hss-sim plan <profile> <run>`", hp.len(), hp[0]);
            println!("HARNESS ERROR: the harness itself panicked in {} run(s) (first: {})", hp.len(), hp[0]);
            harness_error = true;
        }
    }
    let replays = out_dir().join("replays");
    let max_groups = 4;
    for (gi, (key, hits)) in fresh.iter().enumerate() {
        let (profile0, idx0, v0) = &hits[0];
        if gi >= max_groups {
            println!("(further violation class not minimised: key={} first at {} run {}: {})", key, profile0, idx0, v0.detail);
            continue;
        }
        // candidates: the first occurrence, then (if its replay does not reproduce in a fresh process — the
        // library's behaviour may depend on process-wide history) occurrences from the "-proc" profiles,
        // whose runs each had a process of their own, then two more ordinary ones
        let mut candidates: Vec<&(&'static str, u64, Violation)> = vec![&hits[0]];
        candidates.extend(hits.iter().filter(|h| h.0.ends_with("-proc")).take(3));
        candidates.extend(hits.iter().skip(1).filter(|h| !h.0.ends_with("-proc")).take(2));
        let mut reported = false;
        let mut last_err = String::new();
        for (profile, idx, v) in candidates {
            let plan = gen::generate(&ctx, profile, *idx).expect("plan regenerates");
            let base = format!("{}-{}-{}-{}", spec.property, seed, profile, idx);
            let in_child = profile.ends_with("-proc");
            let full = if in_child { run_plan_in_child(&plan).unwrap_or_default() } else { run_plan(&plan, true) };
            // plans of "-proc" profiles depend on the whole process history they create: not shrunk
            let min_plan = if in_child { plan.clone() } else { shrink::minimise(&plan, &v.property, &v.key, 45) };
            let min_rep = if in_child { full.clone() } else { run_plan(&min_plan, true) };
            let mv = min_rep.violations.iter().find(|x| x.property == v.property && x.key == v.key).cloned().unwrap_or_else(|| v.clone());
            let min_path = replays.join(format!("{}-min.json", base));
            write_replay(&min_path, &mv, &min_plan, &min_rep.events);
            // fresh-process replay must reproduce
            let exe = std::env::current_exe().expect("exe");
            let status = std::process::Command::new(exe).arg("replay").arg(&min_path).stdout(std::process::Stdio::null()).status();
            match status.map(|s| s.code()) {
                Ok(Some(1)) => {
                    println!("violation: property={} oracle={} key={} ({} occurrences; this one at {} run {}; minimised {} -> {} ops): {}", spec.property, mv.oracle, key, hits.len(), profile, idx, plan.ops.len(), min_plan.ops.len(), mv.detail);
                    println!("VIOLATION property={} replay={}", spec.property, min_path.display());
                    violation_lines += 1;
                    reported = true;
                    break;
                }
                other => {
                    last_err = format!("fresh-process replay of {} did not reproduce ({:?})", min_path.display(), other);
                    let _ = std::fs::remove_file(&min_path);
                }
            }
            // The plan was shrunk inside this long-lived process.  If the library keeps process-wide state, a
            // candidate can "still fail" only because of what earlier executions left behind, and the shrunk
            // plan lost the steps that set that state up.  Second attempt: does the unshrunk plan show the
            // violation in a process of its own?  Then shrink it with every candidate run in a fresh child.
            if !in_child {
                if let Some(rep) = run_plan_in_child(&plan) {
                    if rep.violations.iter().any(|x| x.property == v.property && x.key == v.key) {
                        let min_plan = shrink::minimise_in_children(&plan, &v.property, &v.key, 60);
                        let min_rep = run_plan_in_child(&min_plan).unwrap_or_default();
                        let mv = min_rep.violations.iter().find(|x| x.property == v.property && x.key == v.key).cloned().unwrap_or_else(|| v.clone());
                        write_replay(&min_path, &mv, &min_plan, &min_rep.events);
                        let exe = std::env::current_exe().expect("exe");
                        let status = std::process::Command::new(exe).arg("replay").arg(&min_path).stdout(std::process::Stdio::null()).status();
                        if let Ok(Some(1)) = status.map(|s| s.code()) {
                            println!("violation: property={} oracle={} key={} ({} occurrences; this one at {} run {}; depends on process-wide history, minimised in fresh child processes {} -> {} ops): {}", spec.property, mv.oracle, key, hits.len(), profile, idx, plan.ops.len(), min_plan.ops.len(), mv.detail);
                            println!("VIOLATION property={} replay={}", spec.property, min_path.display());
                            violation_lines += 1;
                            reported = true;
                            break;
                        }
                        let _ = std::fs::remove_file(&min_path);
                    }
                }
            }
        }
        if !reported {
            eprintln!("HARNESS ERROR: violation class key={} ({} occurrences, first: {}) was observed but none of its replays reproduces in a fresh process: {}", key, hits.len(), v0.detail, last_err);
            harness_error = true;
        }
    }

    // 5. evidence
    let distinct_nontrivial: BTreeSet<u64> = all_runs.iter().filter(|r| r.nontrivial).map(|r| r.signature).collect();
    let mut sample_ids: Vec<(&'static str, u64)> = vec![];
    if let Some(r) = all_runs.first() {
        sample_ids.push((r.profile, r.idx));
    }
    if let Some(r) = all_runs.iter().max_by_key(|r| (r.ops, std::cmp::Reverse(r.idx))) {
        sample_ids.push((r.profile, r.idx));
    }
    if let Some(r) = all_runs.iter().max_by_key(|r| (r.faults, std::cmp::Reverse(r.idx))) {
        sample_ids.push((r.profile, r.idx));
    }
    sample_ids.dedup();
    let samples: Vec<Value> = sample_ids
        .iter()
        .filter_map(|(p, i)| gen::generate(&ctx, p, *i))
        .map(|mut p| {
            let total = p.ops.len();
            p.ops.truncate(40);
            json!({"profile": p.profile, "run": p.run, "note": p.note, "keys": p.keys, "ops_total": total, "ops_first_40": p.ops})
        })
        .collect();
    let wall = t0.elapsed().as_secs_f64();
    let mut event_fold: u64 = 0;
    for r in &all_runs {
        event_fold = crate::rng::fnv1a(format!("{:016x}{:016x}", event_fold, r.event_hash).as_bytes());
    }
    let evaluations = all_runs.len() as u64;
    let ev = json!({
        "property_id": spec.property,
        "tier": tier,
        "seed": seed,
        "level": spec.level,
        "coverage": {
            "evaluations": evaluations,
            "distinct_nontrivial": distinct_nontrivial.len(),
            "rule": spec.rule,
            "samples": samples,
            "exhaustive": spec.exhaustive_note.is_some() && skipped_total == 0,
            "exhaustive_scope": spec.exhaustive_note,
            "parts": per_part,
            "steps": stats.steps,
            "sign_calls": stats.sign_calls,
            "releases_checked": stats.releases,
            "keygens": stats.keygens,
            "deliveries": stats.deliveries,
            "verifications": stats.verifications,
            "oracle_evaluations": stats.oracle_evals,
            "hash_finalisations_metered": stats.hash_finalisations,
            "simulated_time": format!("{} steps; {} metered hash finalisations (the library has no clock)", stats.steps, stats.hash_finalisations),
            "runs_per_hour": if wall > 0.0 { (evaluations as f64 / wall * 3600.0) as u64 } else { 0 },
            "fault_fired": stats.fault_fired,
            "probes": stats.probes,
            "states": stats.states.len(),
            "shapes_covered": stats.shapes.len(),
            "shapes": stats.shapes.iter().take(60).collect::<Vec<_>>(),
            "library_panic_sites_seen": stats.panics_seen,
            "event_log_hash": format!("{:016x}", event_fold),
            "workers": jobs(),
            "build": {"max_levels": crate::BUILD_MAX_LEVELS, "tree_heights": crate::BUILD_TREE_HEIGHTS, "min_w": crate::BUILD_MIN_W, "hooks": crate::lib_iface::H2_KNOWN},
            "components": {
                "real": ["all of /repo/src (hbs-lms, built from the current working tree)", "sha2/sha3 crates", if anchors.hashsigs_available {"cisco hash-sigs demo binary (/repo/tests/demo)"} else {"(hash-sigs binary not runnable here)"}],
                "simulated": ["key store (durable prv/pub/aux files)", "signer processes, crashes, restarts", "update callback outcomes", "transport and its faults", "storage corruption"],
            },
            "anchors": {"rfc_vectors": anchors.rfc_vectors, "rfc_bitflips_rejected": anchors.rfc_bitflips_rejected, "hashsigs_available": anchors.hashsigs_available, "hashsigs_keys": anchors.hashsigs_keys, "hashsigs_signatures": anchors.hashsigs_signatures, "self_consistency": anchors.self_consistency},
            "known_findings_printed": known_hits.keys().collect::<Vec<_>>(),
            "violations_of_other_properties_seen_in_these_runs": other_props,
            "runs_skipped_for_time": skipped_total,
        },
        "assumptions": [
            "the reference model (anchored at every run against the RFC 8554 Appendix F vectors and the hash-sigs binary) is the oracle for byte equality and verdicts",
            "sha2/sha3 crates are correct",
            "a clean batch is evidence over the sampled runs, not proof",
        ],
        "wall_s": wall,
        "violations": violation_lines,
    });
    let evdir = out_dir().join("evidence");
    let _ = std::fs::create_dir_all(&evdir);
    let evpath = std::env::var("VERIF_EVIDENCE").map(PathBuf::from).unwrap_or_else(|_| evdir.join(format!("{}.json", spec.property)));
    std::fs::write(&evpath, serde_json::to_string_pretty(&ev).unwrap()).expect("write evidence");
    println!(
        "{} {}: {} runs ({} skipped for time), {} distinct non-trivial, {} steps, {} sign calls, {} deliveries, {} known-finding classes, {} new violation classes, {:.1}s",
        spec.property,
        tier,
        evaluations,
        skipped_total,
        distinct_nontrivial.len(),
        stats.steps,
        stats.sign_calls,
        stats.deliveries,
        known_hits.len(),
        fresh.len(),
        wall
    );
    if violation_lines > 0 {
        1
    } else if harness_error {
        2
    } else {
        0
    }
}
