//! The cisco hash-sigs `demo` binary shipped in the repository (tests/demo), driven as a
//! subprocess in a private scratch directory.  SHA-256/32 only, heights >= 5.  Deterministic in its
//! arguments (seed and I are passed on the command line).

use std::fs;
use std::path::{Path, PathBuf};
use std::process::Command;
use std::sync::atomic::{AtomicU64, Ordering};

static SEQ: AtomicU64 = AtomicU64::new(0);

pub fn repo_dir() -> PathBuf {
    PathBuf::from(std::env::var("VERIF_REPO").unwrap_or_else(|_| "/repo".into()))
}
pub fn demo_path() -> PathBuf {
    repo_dir().join("tests/demo")
}

pub struct Node {
    dir: PathBuf,
    /// a call hit the wall-clock limit: its None is not a verdict
    timed_out: std::cell::Cell<bool>,
}

fn hex(b: &[u8]) -> String {
    b.iter().map(|x| format!("{:02x}", x)).collect()
}

impl Node {
    pub fn new() -> Option<Node> {
        if !demo_path().exists() {
            return None;
        }
        let dir = std::env::temp_dir().join(format!("hss-sim-{}-{}", std::process::id(), SEQ.fetch_add(1, Ordering::SeqCst)));
        fs::create_dir_all(&dir).ok()?;
        Some(Node { dir, timed_out: std::cell::Cell::new(false) })
    }
    /// Is the binary runnable here at all?
    pub fn available() -> bool {
        match Command::new(demo_path()).output() {
            Ok(o) => String::from_utf8_lossy(&o.stdout).contains("genkey") || String::from_utf8_lossy(&o.stderr).contains("genkey"),
            Err(_) => false,
        }
    }
    /// Run the tool with a wall-clock limit (it is the one real external component; a call that
    /// does not finish is treated as "tool unavailable for this query", never as a verdict).
    fn run(&self, args: &[&str]) -> Option<String> {
        use std::io::Read;
        let mut child = Command::new(demo_path())
            .current_dir(&self.dir)
            .args(args)
            .stdin(std::process::Stdio::null())
            .stdout(std::process::Stdio::piped())
            .stderr(std::process::Stdio::piped())
            .spawn()
            .ok()?;
        let deadline = std::time::Instant::now() + std::time::Duration::from_secs(30);
        loop {
            match child.try_wait() {
                Ok(Some(_)) => break,
                Ok(None) => {
                    if std::time::Instant::now() > deadline {
                        let _ = child.kill();
                        let _ = child.wait();
                        self.timed_out.set(true);
                        return None;
                    }
                    std::thread::sleep(std::time::Duration::from_millis(2));
                }
                Err(_) => return None,
            }
        }
        let mut s = String::new();
        if let Some(mut o) = child.stdout.take() {
            let _ = o.read_to_string(&mut s);
        }
        if let Some(mut e) = child.stderr.take() {
            let mut t = String::new();
            let _ = e.read_to_string(&mut t);
            s.push_str(&t);
        }
        Some(s)
    }
    fn path(&self, f: &str) -> PathBuf {
        self.dir.join(f)
    }
    pub fn put(&self, f: &str, data: &[u8]) {
        fs::write(self.path(f), data).expect("scratch write");
    }
    pub fn get(&self, f: &str) -> Option<Vec<u8>> {
        fs::read(self.path(f)).ok()
    }
    pub fn remove(&self, f: &str) {
        let _ = fs::remove_file(self.path(f));
    }
    /// params: (w, h) top first.  Returns (prv, pub, aux).
    pub fn genkey(&self, params: &[(u32, u32)], seed: &[u8], aux_len: usize) -> Option<(Vec<u8>, Vec<u8>, Vec<u8>)> {
        for f in ["k.prv", "k.pub", "k.aux"] {
            self.remove(f);
        }
        let ps: Vec<String> = params.iter().map(|(w, h)| format!("{}/{}", h, w)).collect();
        let spec = format!("{}:{}", ps.join(","), aux_len);
        // the i= value seeds the demo's RNG for I; the real I is derived from the seed
        let out = self.run(&["genkey", "k", &spec, &format!("seed={}", hex(seed)), "i=000102030405060708090a0b0c0d0e0f"])?;
        if !out.contains("Success") {
            return None;
        }
        Some((self.get("k.prv")?, self.get("k.pub")?, self.get("k.aux").unwrap_or_default()))
    }
    /// Sign `msg` from the given private key file (and aux, if any).  Returns (signature, new prv).
    pub fn sign(&self, prv: &[u8], aux: Option<&[u8]>, msg: &[u8]) -> Option<(Vec<u8>, Vec<u8>)> {
        self.put("k.prv", prv);
        match aux {
            Some(a) => self.put("k.aux", a),
            None => self.remove("k.aux"),
        }
        self.put("m", msg);
        self.remove("m.sig");
        let out = self.run(&["sign", "k", "m"])?;
        if !out.contains("signed (m.sig)") {
            return None;
        }
        Some((self.get("m.sig")?, self.get("k.prv")?))
    }
    pub fn verify(&self, pubk: &[u8], msg: &[u8], sig: &[u8]) -> Option<bool> {
        self.put("k.pub", pubk);
        self.put("m", msg);
        self.put("m.sig", sig);
        let out = self.run(&["verify", "k", "m"])?;
        if out.contains("Signature verified") {
            Some(true)
        } else if out.contains("NOT verified") || out.contains("rror") || out.contains("nable") {
            Some(false)
        } else {
            Some(false)
        }
    }
    /// `demo advance`: returns the new private key, or None if the tool refused the key.
    pub fn advance(&self, prv: &[u8], by: u64) -> Option<Vec<u8>> {
        self.put("k.prv", prv);
        self.remove("k.aux");
        let out = self.run(&["advance", "k", &by.to_string()])?;
        if out.contains("rror") {
            return None;
        }
        self.get("k.prv")
    }
    /// Does the tool load this private key at all?
    pub fn loads(&self, prv: &[u8]) -> Option<bool> {
        self.put("k.prv", prv);
        self.remove("k.aux");
        self.put("m", b"probe");
        let out = self.run(&["sign", "k", "m"])?;
        Some(out.contains("signed (m.sig)"))
    }
    /// true once if a call since the last query ran into the time limit
    pub fn take_timeout(&self) -> bool {
        self.timed_out.replace(false)
    }
    pub fn dir(&self) -> &Path {
        &self.dir
    }
}
impl Drop for Node {
    fn drop(&mut self) {
        let _ = fs::remove_dir_all(&self.dir);
    }
}
