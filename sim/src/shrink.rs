//! Plan minimiser (delta debugging on the op list, then on the key shapes and arguments).  A
//! candidate is accepted only if the same (property, key) violation still occurs.

use crate::plan::*;
use crate::report::RunReport;
use std::cell::Cell;
use std::time::{Duration, Instant};

thread_local! {
    /// evaluate every candidate in a fresh child process (the violation depends on process-wide history of
    /// the library, so evaluating candidates in this long-lived process would be unsound)
    static IN_CHILD: Cell<bool> = Cell::new(false);
}

fn run_plan(plan: &Plan, keep_events: bool) -> RunReport {
    if IN_CHILD.with(|c| c.get()) {
        crate::check::run_plan_in_child(plan).unwrap_or_default()
    } else {
        crate::exec::run_plan(plan, keep_events)
    }
}

thread_local! {
    /// no candidate may cost more per key expansion than this (hash units of gen::tree_cost)
    static COST_LIMIT: Cell<u64> = Cell::new(u64::MAX);
}

/// Cost of the most expensive key of a plan: its top tree (key generation builds only that one), or all of its
/// trees when the plan contains an operation that expands the whole key.  Dropping the cheap top level of a key
/// whose lower levels are tall (heights up to 25 occur below the top in the keygen profile) would otherwise
/// produce a candidate whose single execution takes hours — the time budget is only looked at between candidates.
fn plan_cost(plan: &Plan) -> u64 {
    let expands = plan.ops.iter().any(|op| matches!(op, Op::Sign { .. } | Op::Lifetime { .. } | Op::Load { .. } | Op::Recheck { .. } | Op::Handover { .. } | Op::ForeignKey { .. } | Op::HsKeygen { .. }));
    plan.keys
        .iter()
        .map(|k| {
            if k.params.is_empty() {
                0
            } else if expands {
                k.params.iter().map(|&(w, h)| crate::gen::tree_cost(k.hash, w, h.min(40))).fold(0u64, |a, b| a.saturating_add(b))
            } else {
                crate::gen::tree_cost(k.hash, k.params[0].0, k.params[0].1.min(40))
            }
        })
        .max()
        .unwrap_or(0)
}

fn fails(plan: &Plan, property: &str, key: &str) -> bool {
    if plan_cost(plan) > COST_LIMIT.with(|c| c.get()) {
        return false;
    }
    run_plan(plan, false).violations.iter().any(|v| v.property == property && v.key == key)
}

/// Minimise with every candidate executed in a fresh child process.
pub fn minimise_in_children(plan: &Plan, property: &str, key: &str, budget_s: u64) -> Plan {
    IN_CHILD.with(|c| c.set(true));
    let r = minimise(plan, property, key, budget_s);
    IN_CHILD.with(|c| c.set(false));
    r
}

pub fn minimise(plan: &Plan, property: &str, key: &str, budget_s: u64) -> Plan {
    let deadline = Instant::now() + Duration::from_secs(budget_s);
    COST_LIMIT.with(|c| c.set(plan_cost(plan).max(20_000_000)));
    let mut best = plan.clone();
    if !fails(&best, property, key) {
        return best;
    }
    let mut progress = true;
    while progress && Instant::now() < deadline {
        progress = false;
        // 0. cut everything after the failing op
        if let Some(ix) = run_plan(&best, false).violations.iter().filter(|v| v.property == property && v.key == key).map(|v| v.op_index).min() {
            if ix + 1 < best.ops.len() {
                let mut c = best.clone();
                c.ops.truncate(ix + 1);
                if fails(&c, property, key) {
                    best = c;
                    progress = true;
                }
            }
        }
        // 1. remove chunks of ops
        let mut chunk = (best.ops.len() / 2).max(1);
        while chunk >= 1 && Instant::now() < deadline {
            let mut i = 0;
            while i < best.ops.len() && Instant::now() < deadline {
                let mut c = best.clone();
                let end = (i + chunk).min(c.ops.len());
                c.ops.drain(i..end);
                if !c.ops.is_empty() && fails(&c, property, key) {
                    best = c;
                    progress = true;
                } else {
                    i += chunk;
                }
            }
            if chunk == 1 {
                break;
            }
            chunk /= 2;
        }
        // 2. simplify key shapes
        for ki in 0..best.keys.len() {
            // fewer levels (drop the last, then the first)
            loop {
                if best.keys[ki].params.len() <= 1 || Instant::now() > deadline {
                    break;
                }
                let mut c = best.clone();
                c.keys[ki].params.pop();
                if fails(&c, property, key) {
                    best = c;
                    progress = true;
                    continue;
                }
                let mut c = best.clone();
                c.keys[ki].params.remove(0);
                if fails(&c, property, key) {
                    best = c;
                    progress = true;
                    continue;
                }
                break;
            }
            for li in 0..best.keys[ki].params.len() {
                if Instant::now() > deadline {
                    break;
                }
                let (w, h) = best.keys[ki].params[li];
                let mut hs: Vec<u32> = vec![];
                if crate::lib_iface::H2_KNOWN && h > 2 {
                    hs.push(2);
                }
                if h > 5 {
                    hs.push(5);
                }
                for nh in hs {
                    let mut c = best.clone();
                    c.keys[ki].params[li].1 = nh;
                    if fails(&c, property, key) {
                        best = c;
                        progress = true;
                        break;
                    }
                }
                for nw in [2u32, 1, 4] {
                    if nw == w || best.keys[ki].params[li].0 != w {
                        continue;
                    }
                    let mut c = best.clone();
                    c.keys[ki].params[li].0 = nw;
                    if fails(&c, property, key) {
                        best = c;
                        progress = true;
                        break;
                    }
                }
            }
        }
        // 3. simpler arguments
        for oi in 0..best.ops.len() {
            if Instant::now() > deadline {
                break;
            }
            let mut c = best.clone();
            let changed = match &mut c.ops[oi] {
                Op::Sign { msg, cb, aux, api, .. } => {
                    let mut ch = false;
                    if msg.len > 1 {
                        msg.len = 1;
                        ch = true;
                    }
                    if *cb != Cb::Accept && !(property == "C04") {
                        // keep the fault if it matters: tried separately below
                    }
                    if aux.is_some() && property != "C10" {
                        *aux = None;
                        ch = true;
                    }
                    if *api != Api::Fn && property != "C09" {
                        *api = Api::Fn;
                        ch = true;
                    }
                    ch
                }
                Op::Inject { counter, .. } => {
                    if *counter > 0 {
                        *counter = 0;
                        true
                    } else {
                        false
                    }
                }
                Op::Keygen { aux, .. } => {
                    if aux.is_some() && property != "C10" {
                        *aux = None;
                        true
                    } else {
                        false
                    }
                }
                _ => false,
            };
            if changed && fails(&c, property, key) {
                best = c;
                progress = true;
            }
            let mut c = best.clone();
            if let Op::Sign { cb, .. } = &mut c.ops[oi] {
                if *cb != Cb::Accept {
                    *cb = Cb::Accept;
                    if fails(&c, property, key) {
                        best = c;
                        progress = true;
                    }
                }
            }
        }
    }
    best.note = format!("minimised from run {} ({} ops)", plan.run, plan.ops.len());
    best
}
