//! What a run reports: violations (tagged with the property they belong to and a matcher key),
//! counters for evidence, and the event-log hash used to prove determinism.

use std::collections::{BTreeMap, BTreeSet};

#[derive(Clone, Debug, PartialEq, Eq)]
pub struct Violation {
    pub property: String,
    /// matcher key: stable class of the failure (panic site, oracle + parameter pair, ...);
    /// used by the known-findings file and by the minimiser ("same failure")
    pub key: String,
    pub oracle: String,
    pub detail: String,
    pub op_index: usize,
}

#[derive(Clone, Debug, Default)]
pub struct Stats {
    pub steps: u64,
    pub sign_calls: u64,
    pub releases: u64,
    pub verifications: u64,
    pub deliveries: u64,
    pub keygens: u64,
    pub oracle_evals: u64,
    pub hash_finalisations: u64,
    pub fault_fired: BTreeMap<String, u64>,
    pub probes: BTreeMap<String, u64>,
    /// hashes of abstract states visited
    pub states: BTreeSet<u64>,
    pub shapes: BTreeSet<String>,
    /// some fault fired and an oracle was evaluated afterwards
    pub nontrivial: bool,
    pub panics_seen: BTreeMap<String, u64>,
}
impl Stats {
    pub fn fire(&mut self, k: &str) {
        *self.fault_fired.entry(k.to_string()).or_insert(0) += 1;
    }
    pub fn probe(&mut self, k: &str) {
        *self.probes.entry(k.to_string()).or_insert(0) += 1;
    }
    pub fn merge(&mut self, o: &Stats) {
        self.steps += o.steps;
        self.sign_calls += o.sign_calls;
        self.releases += o.releases;
        self.verifications += o.verifications;
        self.deliveries += o.deliveries;
        self.keygens += o.keygens;
        self.oracle_evals += o.oracle_evals;
        self.hash_finalisations += o.hash_finalisations;
        for (k, v) in &o.fault_fired {
            *self.fault_fired.entry(k.clone()).or_insert(0) += v;
        }
        for (k, v) in &o.probes {
            *self.probes.entry(k.clone()).or_insert(0) += v;
        }
        for (k, v) in &o.panics_seen {
            *self.panics_seen.entry(k.clone()).or_insert(0) += v;
        }
        self.states.extend(o.states.iter().copied());
        self.shapes.extend(o.shapes.iter().cloned());
    }
}

#[derive(Clone, Debug, Default)]
pub struct RunReport {
    pub violations: Vec<Violation>,
    pub stats: Stats,
    /// FNV over executed ops and their outcomes
    pub event_hash: u64,
    pub events: Vec<String>,
    /// hash of (configuration, op-kind sequence, fault-fired set) for distinctness
    pub signature: u64,
}
