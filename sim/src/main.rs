mod anchors;
mod hashsigs;
mod lib_iface;
mod model;
mod rng;
mod util;

include!(concat!(env!("OUT_DIR"), "/build_limits.rs"));

fn main() {
    lib_iface::install_panic_hook();
    let args: Vec<String> = std::env::args().collect();
    match args.get(1).map(|s| s.as_str()) {
        Some("anchors") => {
            let t = std::time::Instant::now();
            match anchors::run(args.get(2).map(|s| s == "quick").unwrap_or(true)) {
                Ok(r) => println!("anchors ok: {:?} in {:?}", r, t.elapsed()),
                Err(e) => {
                    eprintln!("ANCHOR FAILURE: {}", e);
                    std::process::exit(2);
                }
            }
        }
        Some("probe") => {
            use lib_iface::*;
            for id in ALL_HASHES {
                let n = id.n();
                let seed: Vec<u8> = (0..n as u8).collect();
                let params = vec![(4u32, 2u32), (2, 5)];
                let t = std::time::Instant::now();
                let (prv, pk) = match keygen(id, &params, &seed, None) { Outcome::Ok(x) => x, o => { println!("{:?} keygen {:?}", id, o.describe()); continue } };
                let key = model::HssKey { hs: id.spec(), params: params.clone(), seed: seed.clone() };
                println!("{:?} prv_eq={} pub_eq={} keygen {:?}", id, prv == model::prv_blob(&params, 0, &seed), pk == key.public_key(), t.elapsed());
                let mut newk = vec![];
                meter_reset();
                let t = std::time::Instant::now();
                let sig = sign(id, b"hello", &prv, &mut |k: &[u8]| { newk = k.to_vec(); Ok(()) }, None);
                let el = t.elapsed();
                if let Outcome::Ok(sig) = sig {
                    let m = key.sign(0, b"hello", model::LsPolicy::K1Adjusted, model::CConv::Library).unwrap();
                    println!("   sig_eq={} succ_eq={} meter={} sign {:?} verify={:?}", sig == m, newk == model::successor(&params, 0, &seed), meter_read(), el, verify(id, VerifyEntry::Fn, b"hello", &sig, &pk).describe());
                } else { println!("   sign {:?}", sig.describe()); }
            }
        }
        _ => eprintln!("usage"),
    }
    let _ = (BUILD_MAX_LEVELS, BUILD_TREE_HEIGHTS, BUILD_MIN_W, BUILD_IS_DEFAULT);
}
