mod anchors;
mod check;
mod controls;
mod exec;
mod gen;
mod gen2;
mod handover;
mod hashsigs;
mod lib_iface;
mod model;
mod plan;
mod purity;
mod radix;
mod report;
mod rng;
mod shrink;
mod specs;
mod storage;
mod util;
mod wire;

include!(concat!(env!("OUT_DIR"), "/build_limits.rs"));

fn usage() -> ! {
    eprintln!("usage: hss-sim check <Cxx> <quick|thorough> | replay <file> | plan <profile> <run> [quick|thorough] | anchors | determinism <n> | exec-op");
    std::process::exit(2)
}

fn main() {
    lib_iface::install_panic_hook();
    let args: Vec<String> = std::env::args().collect();
    let seed: u64 = std::env::var("VERIF_SEED").ok().and_then(|s| s.parse().ok()).unwrap_or(check::DEFAULT_SEED);
    // the library keeps ~100 KiB structures on the stack: run everything on a big-stack thread
    let code = std::thread::Builder::new()
        .stack_size(512 << 20)
        .spawn(move || match args.get(1).map(|s| s.as_str()) {
            Some("check") => {
                let prop = args.get(2).cloned().unwrap_or_else(|| usage());
                let tier = args.get(3).cloned().or_else(|| std::env::var("VERIF_TIER").ok()).unwrap_or_else(|| "quick".into());
                match specs::spec(&prop, tier == "quick") {
                    Some(s) => check::run_check(&s, &tier, seed),
                    None => {
                        eprintln!("no check for {}", prop);
                        2
                    }
                }
            }
            Some("replay") => check::replay(args.get(2).unwrap_or_else(|| usage())),
            Some("exec-op") => {
                purity::child_main();
                0
            }
            Some("exec-plan") => check::exec_plan_main(),
            Some("anchors") => match anchors::run(args.get(2).map(|s| s != "thorough").unwrap_or(true)) {
                Ok(r) => {
                    println!("anchors ok: {:?}", r);
                    0
                }
                Err(e) => {
                    eprintln!("ANCHOR FAILURE: {}", e);
                    2
                }
            },
            Some("plan") => {
                let profile = args.get(2).cloned().unwrap_or_else(|| usage());
                let run: u64 = args.get(3).and_then(|s| s.parse().ok()).unwrap_or(0);
                let quick = args.get(4).map(|s| s != "thorough").unwrap_or(true);
                match gen::generate(&gen::GenCtx { verif_seed: seed, quick }, &profile, run) {
                    Some(p) => {
                        let rep = exec::run_plan(&p, true);
                        println!("{}", serde_json::to_string(&p).unwrap());
                        for e in &rep.events {
                            println!("  {}", e);
                        }
                        for v in &rep.violations {
                            println!("  !! {} [{}] {} @op{}: {}", v.property, v.key, v.oracle, v.op_index, v.detail);
                        }
                        println!("stats: steps={} signs={} releases={} deliveries={} faults={:?} probes={:?}", rep.stats.steps, rep.stats.sign_calls, rep.stats.releases, rep.stats.deliveries, rep.stats.fault_fired, rep.stats.probes);
                        0
                    }
                    None => {
                        eprintln!("no such plan");
                        2
                    }
                }
            }
            Some("determinism") => specs::determinism(seed, args.get(2).and_then(|s| s.parse().ok()).unwrap_or(200)),
            _ => usage(),
        })
        .unwrap()
        .join()
        .unwrap_or(2);
    std::process::exit(code);
}
