//! The only module that touches the library under test.  Every call runs under catch_unwind and is
//! classified as Ok / Err / Panic(site) / Crash (the simulator's own unwinding marker).

use hbs_lms::signature::{Signature as _, SignerMut, Verifier};
use hbs_lms::{HashChain, HssParameter, LmotsAlgorithm, LmsAlgorithm, Seed, SigningKey, VerifierSignature, VerifyingKey};
use serde::{Deserialize, Serialize};
use std::cell::{Cell, RefCell};
use std::panic::{catch_unwind, AssertUnwindSafe};

use crate::model::{Fam, HashSpec};

// ---------------------------------------------------------------------------------------------
// work meter: a HashChain that delegates to the library's own hasher and counts finalisations
// ---------------------------------------------------------------------------------------------
thread_local! {
    static METER: Cell<u64> = Cell::new(0);
    static LAST_PANIC: RefCell<Option<(String, String)>> = RefCell::new(None);
    static QUIET: Cell<bool> = Cell::new(false);
}
pub fn meter_read() -> u64 {
    METER.with(|m| m.get())
}
pub fn meter_reset() {
    METER.with(|m| m.set(0));
}

#[derive(Debug, Default, Clone)]
pub struct Counted<H: HashChain>(H);
impl<H: HashChain> PartialEq for Counted<H> {
    fn eq(&self, _: &Self) -> bool {
        false
    }
}
impl<H: HashChain> digest::OutputSizeUser for Counted<H> {
    type OutputSize = <H as digest::OutputSizeUser>::OutputSize;
}
impl<H: HashChain> digest::FixedOutput for Counted<H> {
    fn finalize_into(self, out: &mut digest::Output<Self>) {
        METER.with(|m| m.set(m.get() + 1));
        self.0.finalize_into(out)
    }
}
impl<H: HashChain> digest::Update for Counted<H> {
    fn update(&mut self, data: &[u8]) {
        digest::Update::update(&mut self.0, data)
    }
}
impl<H: HashChain> HashChain for Counted<H> {
    const OUTPUT_SIZE: u16 = H::OUTPUT_SIZE;
    const BLOCK_SIZE: u16 = H::BLOCK_SIZE;
    fn finalize(self) -> tinyvec_compat::Out {
        METER.with(|m| m.set(m.get() + 1));
        HashChain::finalize(self.0)
    }
    fn finalize_reset(&mut self) -> tinyvec_compat::Out {
        METER.with(|m| m.set(m.get() + 1));
        HashChain::finalize_reset(&mut self.0)
    }
}
/// The return type of HashChain::finalize is tinyvec's ArrayVec<[u8; MAX_HASH_SIZE]>; name it
/// through the trait so that this crate needs no direct tinyvec dependency.
mod tinyvec_compat {
    pub type Out = tinyvec::ArrayVec<[u8; hbs_lms::MAX_HASH_SIZE]>;
}

// ---------------------------------------------------------------------------------------------
// hash dispatch
// ---------------------------------------------------------------------------------------------
#[allow(non_camel_case_types)]
#[derive(Clone, Copy, PartialEq, Eq, Debug, Serialize, Deserialize, Hash, PartialOrd, Ord)]
pub enum HashId {
    Sha256_256,
    Sha256_192,
    Sha256_128,
    Shake256_256,
    Shake256_192,
    Shake256_128,
    /// metered twins (same function, counted finalisations)
    M_Sha256_192,
    M_Shake256_128,
}
pub const ALL_HASHES: [HashId; 8] = [
    HashId::Sha256_256,
    HashId::Sha256_192,
    HashId::Sha256_128,
    HashId::Shake256_256,
    HashId::Shake256_192,
    HashId::Shake256_128,
    HashId::M_Sha256_192,
    HashId::M_Shake256_128,
];
pub const PLAIN_HASHES: [HashId; 6] = [
    HashId::Sha256_256,
    HashId::Sha256_192,
    HashId::Sha256_128,
    HashId::Shake256_256,
    HashId::Shake256_192,
    HashId::Shake256_128,
];
impl HashId {
    pub fn spec(&self) -> HashSpec {
        match self {
            HashId::Sha256_256 => HashSpec { fam: Fam::Sha256, n: 32 },
            HashId::Sha256_192 | HashId::M_Sha256_192 => HashSpec { fam: Fam::Sha256, n: 24 },
            HashId::Sha256_128 => HashSpec { fam: Fam::Sha256, n: 16 },
            HashId::Shake256_256 => HashSpec { fam: Fam::Shake256, n: 32 },
            HashId::Shake256_192 => HashSpec { fam: Fam::Shake256, n: 24 },
            HashId::Shake256_128 | HashId::M_Shake256_128 => HashSpec { fam: Fam::Shake256, n: 16 },
        }
    }
    pub fn n(&self) -> usize {
        self.spec().n
    }
    pub fn metered(&self) -> bool {
        matches!(self, HashId::M_Sha256_192 | HashId::M_Shake256_128)
    }
    pub fn unmetered(&self) -> HashId {
        match self {
            HashId::M_Sha256_192 => HashId::Sha256_192,
            HashId::M_Shake256_128 => HashId::Shake256_128,
            x => *x,
        }
    }
    /// relative cost of one hash call (SHAKE is slower)
    pub fn cost(&self) -> u64 {
        match self.spec().fam {
            Fam::Sha256 => 1,
            Fam::Shake256 => 5,
        }
    }
}

macro_rules! with_hash {
    ($id:expr, $H:ident => $body:expr) => {
        match $id {
            HashId::Sha256_256 => {
                type $H = hbs_lms::Sha256_256;
                $body
            }
            HashId::Sha256_192 => {
                type $H = hbs_lms::Sha256_192;
                $body
            }
            HashId::Sha256_128 => {
                type $H = hbs_lms::Sha256_128;
                $body
            }
            HashId::Shake256_256 => {
                type $H = hbs_lms::Shake256_256;
                $body
            }
            HashId::Shake256_192 => {
                type $H = hbs_lms::Shake256_192;
                $body
            }
            HashId::Shake256_128 => {
                type $H = hbs_lms::Shake256_128;
                $body
            }
            HashId::M_Sha256_192 => {
                type $H = Counted<hbs_lms::Sha256_192>;
                $body
            }
            HashId::M_Shake256_128 => {
                type $H = Counted<hbs_lms::Shake256_128>;
                $body
            }
        }
    };
}

// ---------------------------------------------------------------------------------------------
// outcome classification
// ---------------------------------------------------------------------------------------------
#[derive(Clone, Debug, PartialEq, Eq)]
pub enum Outcome<T> {
    Ok(T),
    Err,
    /// the library panicked; normalised "file:line" of the panic location
    Panic(String),
    /// the simulator's crash marker unwound through the call (never the library's doing)
    Crash,
}
impl<T> Outcome<T> {
    pub fn kind(&self) -> &'static str {
        match self {
            Outcome::Ok(_) => "ok",
            Outcome::Err => "err",
            Outcome::Panic(_) => "panic",
            Outcome::Crash => "crash",
        }
    }
    pub fn describe(&self) -> String {
        match self {
            Outcome::Panic(s) => format!("panic@{}", s),
            o => o.kind().to_string(),
        }
    }
    pub fn panic_site(&self) -> Option<String> {
        match self {
            Outcome::Panic(s) => Some(s.clone()),
            _ => None,
        }
    }
    pub fn is_ok(&self) -> bool {
        matches!(self, Outcome::Ok(_))
    }
    pub fn map<U>(self, f: impl FnOnce(T) -> U) -> Outcome<U> {
        match self {
            Outcome::Ok(t) => Outcome::Ok(f(t)),
            Outcome::Err => Outcome::Err,
            Outcome::Panic(s) => Outcome::Panic(s),
            Outcome::Crash => Outcome::Crash,
        }
    }
}

pub struct CrashMarker;

/// Unwind out of a callback as a simulated process crash (does not run the panic hook).
pub fn simulate_crash() -> ! {
    std::panic::resume_unwind(Box::new(CrashMarker))
}

fn normalise_site(file: &str, line: u32) -> String {
    if let Some(pos) = file.find("/registry/src/") {
        // e.g. .../registry/src/index.crates.io-xxxx/tinyvec-1.6.0/src/arrayvec.rs
        let rest = &file[pos + "/registry/src/".len()..];
        let rest = rest.splitn(2, '/').nth(1).unwrap_or(rest);
        return format!("dep:{}:{}", rest, line);
    }
    if file.contains("/rustc/") || file.contains("/library/") {
        let tail = file.rsplit("/library/").next().unwrap_or(file);
        return format!("std:{}:{}", tail, line);
    }
    if let Some(pos) = file.rfind("/src/") {
        // library under test (wherever the tree lives) or this engine
        let prefix = &file[..pos];
        let tag = if prefix.ends_with("/sim") || prefix.ends_with("/simthreads") { "harness:" } else { "" };
        return format!("{}src/{}:{}", tag, &file[pos + 5..], line);
    }
    if let Some(rest) = file.strip_prefix("src/") {
        return format!("harness:src/{}:{}", rest, line);
    }
    format!("{}:{}", file, line)
}

pub fn install_panic_hook() {
    let default = std::panic::take_hook();
    std::panic::set_hook(Box::new(move |info| {
        let site = info
            .location()
            .map(|l| normalise_site(l.file(), l.line()))
            .unwrap_or_else(|| "unknown".into());
        let msg = if let Some(s) = info.payload().downcast_ref::<&str>() {
            s.to_string()
        } else if let Some(s) = info.payload().downcast_ref::<String>() {
            s.clone()
        } else {
            String::new()
        };
        LAST_PANIC.with(|p| *p.borrow_mut() = Some((site, msg)));
        if !QUIET.with(|q| q.get()) {
            default(info);
        }
    }));
}

/// Run a library call: quiet panics, classify.
pub fn guarded<T>(f: impl FnOnce() -> Result<T, ()>) -> Outcome<T> {
    let was = QUIET.with(|q| q.replace(true));
    LAST_PANIC.with(|p| *p.borrow_mut() = None);
    let r = catch_unwind(AssertUnwindSafe(f));
    QUIET.with(|q| q.set(was));
    match r {
        Ok(Ok(t)) => Outcome::Ok(t),
        Ok(Err(())) => Outcome::Err,
        Err(payload) => {
            if payload.downcast_ref::<CrashMarker>().is_some() {
                Outcome::Crash
            } else {
                let (site, _msg) = LAST_PANIC.with(|p| p.borrow_mut().take()).unwrap_or(("unknown".into(), String::new()));
                Outcome::Panic(site)
            }
        }
    }
}

// ---------------------------------------------------------------------------------------------
// parameters
// ---------------------------------------------------------------------------------------------
fn lmots(w: u32) -> LmotsAlgorithm {
    match w {
        1 => LmotsAlgorithm::LmotsW1,
        2 => LmotsAlgorithm::LmotsW2,
        4 => LmotsAlgorithm::LmotsW4,
        8 => LmotsAlgorithm::LmotsW8,
        _ => panic!("harness: bad w {}", w),
    }
}
fn lms(h: u32) -> LmsAlgorithm {
    match h {
        #[cfg(feature = "hooks")]
        2 => LmsAlgorithm::LmsH2,
        5 => LmsAlgorithm::LmsH5,
        10 => LmsAlgorithm::LmsH10,
        15 => LmsAlgorithm::LmsH15,
        20 => LmsAlgorithm::LmsH20,
        25 => LmsAlgorithm::LmsH25,
        _ => panic!("harness: bad h {}", h),
    }
}
pub const H2_KNOWN: bool = cfg!(feature = "hooks");

fn with_aux<R>(aux: Option<&mut Vec<u8>>, f: impl FnOnce(Option<&mut &mut [u8]>) -> R) -> R {
    match aux {
        None => f(None),
        Some(v) => {
            let (r, newlen) = {
                let mut slice: &mut [u8] = &mut v[..];
                let r = f(Some(&mut slice));
                (r, slice.len())
            };
            // the caller keeps what the library left in the (possibly shrunk) slice
            v.truncate(newlen);
            r
        }
    }
}

fn keygen_g<H: HashChain>(params: &[(u32, u32)], seed: &[u8], aux: Option<&mut Vec<u8>>) -> Outcome<(Vec<u8>, Vec<u8>)> {
    let ps: Vec<HssParameter<H>> = params.iter().map(|&(w, h)| HssParameter::new(lmots(w), lms(h))).collect();
    let mut s = Seed::<H>::default();
    s.as_mut_slice().copy_from_slice(seed);
    // a panic must not leave the aux vector borrowed: with_aux truncates only on normal return
    let mut aux = aux;
    guarded(|| {
        with_aux(aux.as_deref_mut(), |a| {
            hbs_lms::keygen::<H>(&ps, &s, a)
                .map(|(sk, vk)| (sk.as_slice().to_vec(), vk.as_slice().to_vec()))
                .map_err(|_| ())
        })
    })
}
pub fn keygen(id: HashId, params: &[(u32, u32)], seed: &[u8], aux: Option<&mut Vec<u8>>) -> Outcome<(Vec<u8>, Vec<u8>)> {
    with_hash!(id, H => keygen_g::<H>(params, seed, aux))
}

fn sign_g<H: HashChain>(
    msg: &[u8],
    prv: &[u8],
    cb: &mut dyn FnMut(&[u8]) -> Result<(), ()>,
    aux: Option<&mut Vec<u8>>,
) -> Outcome<Vec<u8>> {
    let mut aux = aux;
    guarded(|| with_aux(aux.as_deref_mut(), |a| hbs_lms::sign::<H>(msg, prv, cb, a).map(|s| s.as_ref().to_vec()).map_err(|_| ())))
}
/// `hbs_lms::sign` — the byte-level function with the caller's update callback.
pub fn sign(id: HashId, msg: &[u8], prv: &[u8], cb: &mut dyn FnMut(&[u8]) -> Result<(), ()>, aux: Option<&mut Vec<u8>>) -> Outcome<Vec<u8>> {
    with_hash!(id, H => sign_g::<H>(msg, prv, cb, aux))
}

/// A live in-memory signing key object (kept across operations of a simulated process).
pub trait ObjKey {
    fn try_sign(&mut self, msg: &[u8]) -> Outcome<Vec<u8>>;
    fn try_sign_with_aux(&mut self, msg: &[u8], aux: Option<&mut Vec<u8>>) -> Outcome<Vec<u8>>;
    fn bytes(&self) -> Vec<u8>;
    fn lifetime(&self) -> Outcome<u64>;
}
impl<H: HashChain> ObjKey for SigningKey<H> {
    fn try_sign(&mut self, msg: &[u8]) -> Outcome<Vec<u8>> {
        guarded(|| SignerMut::try_sign(self, msg).map(|s| s.as_ref().to_vec()).map_err(|_| ()))
    }
    fn try_sign_with_aux(&mut self, msg: &[u8], aux: Option<&mut Vec<u8>>) -> Outcome<Vec<u8>> {
        let mut aux = aux;
        guarded(|| with_aux(aux.as_deref_mut(), |a| SigningKey::try_sign_with_aux(self, msg, a).map(|s| s.as_ref().to_vec()).map_err(|_| ())))
    }
    fn bytes(&self) -> Vec<u8> {
        self.as_slice().to_vec()
    }
    fn lifetime(&self) -> Outcome<u64> {
        guarded(|| self.get_lifetime().map_err(|_| ()))
    }
}
fn obj_g<H: HashChain + 'static>(bytes: &[u8]) -> Outcome<Box<dyn ObjKey>> {
    guarded(|| SigningKey::<H>::from_bytes(bytes).map(|k| Box::new(k) as Box<dyn ObjKey>).map_err(|_| ()))
}
pub fn signing_key_from_bytes(id: HashId, bytes: &[u8]) -> Outcome<Box<dyn ObjKey>> {
    with_hash!(id, H => obj_g::<H>(bytes))
}
pub fn lifetime(id: HashId, bytes: &[u8]) -> Outcome<u64> {
    match signing_key_from_bytes(id, bytes) {
        Outcome::Ok(k) => k.lifetime(),
        Outcome::Err => Outcome::Err,
        Outcome::Panic(s) => Outcome::Panic(s),
        Outcome::Crash => Outcome::Crash,
    }
}

#[derive(Clone, Copy, PartialEq, Eq, Debug, Serialize, Deserialize, Hash, PartialOrd, Ord)]
pub enum VerifyEntry {
    /// hbs_lms::verify on three byte slices
    Fn,
    /// VerifyingKey::from_bytes + Signature::from_bytes + Verifier::verify
    KeySig,
    /// VerifyingKey::from_bytes + VerifierSignature::from_ref + Verifier::verify
    KeyRef,
}
pub const ALL_ENTRIES: [VerifyEntry; 3] = [VerifyEntry::Fn, VerifyEntry::KeySig, VerifyEntry::KeyRef];

fn verify_g<H: HashChain>(entry: VerifyEntry, msg: &[u8], sig: &[u8], pk: &[u8]) -> Outcome<()> {
    guarded(|| match entry {
        VerifyEntry::Fn => hbs_lms::verify::<H>(msg, sig, pk).map_err(|_| ()),
        VerifyEntry::KeySig => {
            let vk = VerifyingKey::<H>::from_bytes(pk).map_err(|_| ())?;
            let s = hbs_lms::Signature::from_bytes(sig).map_err(|_| ())?;
            Verifier::verify(&vk, msg, &s).map_err(|_| ())
        }
        VerifyEntry::KeyRef => {
            let vk = VerifyingKey::<H>::from_bytes(pk).map_err(|_| ())?;
            let s = VerifierSignature::from_ref(sig).map_err(|_| ())?;
            Verifier::verify(&vk, msg, &s).map_err(|_| ())
        }
    })
}
pub fn verify(id: HashId, entry: VerifyEntry, msg: &[u8], sig: &[u8], pk: &[u8]) -> Outcome<()> {
    with_hash!(id, H => verify_g::<H>(entry, msg, sig, pk))
}

// ---------------------------------------------------------------------------------------------
// arithmetic accessors (hook 2)
// ---------------------------------------------------------------------------------------------
#[cfg(feature = "hooks")]
pub mod arith {
    use super::*;
    pub fn leaves(heights: &[u8], counter: u64) -> Outcome<Vec<u32>> {
        guarded(|| Ok(hbs_lms::verif_hooks::leaves_for_counter(heights, counter)[..heights.len()].to_vec()))
    }
    pub fn increment(heights: &[u8], counter: u64) -> Outcome<Option<u64>> {
        guarded(|| Ok(hbs_lms::verif_hooks::increment_counter(heights, counter)))
    }
    pub fn lifetime(heights: &[u8], counter: u64) -> Outcome<u64> {
        guarded(|| Ok(hbs_lms::verif_hooks::lifetime_for_counter(heights, counter)))
    }
}
