//! The plan interpreter: simulated key store, signer processes, callback/crash simulation, ghost
//! state and oracles.  A pure function of (plan, code under test): draws nothing from a PRNG.

use crate::hashsigs::Node;
use crate::lib_iface::{self as lib, HashId, ObjKey, Outcome, ALL_ENTRIES, H2_KNOWN};
use crate::model::{self, verify::VerifyCfg, AuxCheck, CConv, Decoded, HssKey, LsPolicy};
use crate::plan::*;
use crate::report::*;
use crate::rng::{content, fnv1a, Rng};
use crate::util::{hex, sha256, short_hex};
use std::collections::BTreeMap;

pub struct Release {
    pub counter: u64,
    pub msg: Vec<u8>,
    pub sig: Vec<u8>,
    pub by_hashsigs: bool,
}

pub struct KeyState {
    pub cfg: KeyCfg,
    pub model: HssKey,
    pub generated: bool,
    /// durable files
    pub prv: Vec<u8>,
    pub pubk: Vec<u8>,
    pub aux: Vec<Option<Vec<u8>>>,
    /// ghost
    pub releases: Vec<Release>,
    pub prv_corrupted: bool,
    pub lifetime_seen: Option<u64>,
    /// highest counter a signature was released for since the ledger entries of this key were last reset
    pub ledger_high: Option<u64>,
}

pub enum Mem {
    Bytes(Vec<u8>),
    Obj(Box<dyn ObjKey>),
}
pub struct Proc {
    pub key: usize,
    pub mem: Option<Mem>,
}

pub struct Envelope {
    pub key: usize,
    pub counter: u64,
    pub msg: Vec<u8>,
    pub sig: Vec<u8>,
}

#[derive(Clone)]
pub struct OpRecord {
    pub kind: &'static str,
    pub key: usize,
    /// inputs of the observed call
    pub prv_in: Vec<u8>,
    pub msg: Vec<u8>,
    /// outputs: (a, b) = (prv, pub) for keygen, (sig, successor) for sign
    pub out_a: Vec<u8>,
    pub out_b: Vec<u8>,
    pub ok: bool,
    /// the observed call went through the in-memory SigningKey object
    pub via_obj: bool,
}

pub struct Options {
    /// compare every aux-assisted call with the same call without aux (C10)
    pub transparency: bool,
    /// evaluate the model-equality oracles (C07/C08); off in purity runs
    pub model_oracles: bool,
    /// keep the full event list (replay / samples); otherwise only its hash
    pub keep_events: bool,
    pub hashsigs: bool,
    /// purity profiles: a call on a valid key that fails here is repeated in a fresh child process; if it
    /// succeeds there, the failure was caused by what this process did before (C09)
    pub purity: bool,
}
impl Default for Options {
    fn default() -> Self {
        Options { transparency: false, model_oracles: true, keep_events: false, hashsigs: true, purity: false }
    }
}

pub struct World {
    pub keys: Vec<KeyState>,
    pub procs: Vec<Proc>,
    pub ledger: BTreeMap<(usize, Vec<u8>, u32), ([u8; 32], usize)>,
    pub envelopes: Vec<Envelope>,
    pub records: Vec<Option<OpRecord>>,
    pub rep: RunReport,
    pub opt: Options,
    pub node: Option<Node>,
    pub op_index: usize,
    any_fault: bool,
    /// set by `ChildKeyAsNextMessage`, consumed by the next `Sign`
    pub next_message: Option<Vec<u8>>,
    /// during the oracles of a `Sign` that was given an aux buffer: (class of the buffer, does the model
    /// accept it as a valid or unused buffer of this key)
    cur_aux: Option<(&'static str, bool)>,
}

pub fn heights(params: &[(u32, u32)]) -> Vec<u32> {
    params.iter().map(|p| p.1).collect()
}
pub fn shape_string(hash: HashId, params: &[(u32, u32)]) -> String {
    let ps: Vec<String> = params.iter().map(|(w, h)| format!("{}/{}", h, w)).collect();
    format!("{:?}:{}", hash.unmetered(), ps.join(","))
}

impl World {
    pub fn new(plan: &Plan, opt: Options) -> World {
        let keys = plan
            .keys
            .iter()
            .map(|cfg| KeyState {
                cfg: cfg.clone(),
                model: HssKey { hs: cfg.hash.spec(), params: cfg.params.clone(), seed: cfg.seed.clone() },
                generated: false,
                prv: vec![],
                pubk: vec![],
                aux: vec![],
                releases: vec![],
                prv_corrupted: false,
                lifetime_seen: None,
                ledger_high: None,
            })
            .collect();
        let procs = plan.procs.iter().map(|&k| Proc { key: k, mem: None }).collect();
        World {
            keys,
            procs,
            ledger: BTreeMap::new(),
            envelopes: vec![],
            records: vec![],
            rep: RunReport::default(),
            opt,
            node: None,
            op_index: 0,
            any_fault: false,
            next_message: None,
            cur_aux: None,
        }
    }

    pub fn violate(&mut self, property: &str, key: impl Into<String>, oracle: &str, detail: impl Into<String>) {
        let key = key.into();
        let detail = detail.into();
        // in a build with non-default limits, a key inside the limits that misbehaves in any of these
        // ways also breaks C14 ("same behaviour as the default build")
        if !crate::BUILD_IS_DEFAULT && ["C01", "C03", "C04", "C05", "C07", "C08", "C10"].contains(&property) {
            self.rep.violations.push(Violation {
                property: "C14".to_string(),
                key: format!("{}:{}", property, key),
                oracle: oracle.to_string(),
                detail: format!("[build: {} levels, heights {:?}, min w {:?}] {}", crate::BUILD_MAX_LEVELS, crate::BUILD_TREE_HEIGHTS, crate::BUILD_MIN_W, detail),
                op_index: self.op_index,
            });
        }
        self.rep.violations.push(Violation { property: property.to_string(), key, oracle: oracle.to_string(), detail, op_index: self.op_index });
    }
    pub fn event(&mut self, s: String) {
        self.rep.event_hash = fnv1a(format!("{:016x}|{}", self.rep.event_hash, s).as_bytes());
        if self.opt.keep_events {
            self.rep.events.push(s);
        }
    }
    pub fn fault(&mut self, k: &str) {
        self.rep.stats.fire(k);
        self.any_fault = true;
    }
    pub fn oracle_evaluated(&mut self) {
        self.rep.stats.oracle_evals += 1;
        if self.any_fault {
            self.rep.stats.nontrivial = true;
        }
    }
    fn note_panic(&mut self, site: &str) {
        *self.rep.stats.panics_seen.entry(site.to_string()).or_insert(0) += 1;
    }
    fn state_probe(&mut self, ki: usize) {
        let k = &self.keys[ki];
        let aux_class: Vec<u8> = k
            .aux
            .iter()
            .map(|a| match a {
                None => 0u8,
                Some(v) if v.is_empty() => 1,
                Some(v) if v[0] == 0 => 2,
                Some(_) => 3,
            })
            .collect();
        let mem: Vec<u8> = self
            .procs
            .iter()
            .filter(|p| p.key == ki)
            .map(|p| match &p.mem {
                None => 0u8,
                Some(Mem::Bytes(b)) => 1 + (b != &k.prv) as u8,
                Some(Mem::Obj(o)) => 3 + (o.bytes() != k.prv) as u8,
            })
            .collect();
        let s = format!("{}|{}|{:?}|{:?}", shape_string(k.cfg.hash, &k.cfg.params), hex(&k.prv[..k.prv.len().min(8)]), aux_class, mem);
        self.rep.stats.states.insert(fnv1a(s.as_bytes()));
    }

    // -----------------------------------------------------------------------------------------
    // key generation
    // -----------------------------------------------------------------------------------------
    pub fn op_keygen(&mut self, ki: usize, aux: &Option<(usize, usize, AuxFill)>) {
        let cfg = self.keys[ki].cfg.clone();
        let lim = limit_class(&cfg.params);
        let mut auxbuf = aux.as_ref().map(|(slot, len, fill)| match fill {
            AuxFill::Existing => self.keys[ki].aux.get(*slot).cloned().flatten().unwrap_or_default(),
            _ => make_aux(*len, fill),
        });
        let aux_before = auxbuf.clone();
        if let Some(b) = &aux_before {
            self.fault(&format!("keygen-aux-buffer-{}", aux_class(b)));
        }
        lib::meter_reset();
        let out = lib::keygen(cfg.hash, &cfg.params, &cfg.seed, auxbuf.as_mut());
        let meter_aux = lib::meter_read();
        self.rep.stats.hash_finalisations += meter_aux;
        self.rep.stats.keygens += 1;
        self.rep.stats.shapes.insert(shape_string(cfg.hash, &cfg.params));
        self.event(format!("keygen k{} {} aux={:?} -> {}", ki, shape_string(cfg.hash, &cfg.params), aux.as_ref().map(|a| (a.0, a.1)), out.describe()));
        let want_prv = model::prv_blob(&cfg.params, 0, &cfg.seed);
        match &out {
            Outcome::Ok((prv, pubk)) => {
                if self.opt.model_oracles {
                    let want_pub = self.keys[ki].model.public_key();
                    if prv != &want_prv {
                        self.violate("C08", "keygen-prv", "keygen-model", format!("private key {} but hash-sigs encoding gives {}", hex(prv), hex(&want_prv)));
                    }
                    if pubk != &want_pub {
                        let field = first_pub_diff(pubk, &want_pub);
                        self.violate("C08", format!("keygen-pub:{}", field), "keygen-model", format!("public key {} but the derivation gives {} (first difference in {})", hex(pubk), hex(&want_pub), field));
                        if let Some(b) = &aux_before {
                            if !b.is_empty() && b.iter().any(|&x| x != 0) {
                                let cls = aux_class(b);
                                self.violate("C10", format!("keygen-wrong-result-with-aux:{}", cls), "aux-transparency", format!("keygen with a {} aux buffer of {} bytes returned a public key that is not this seed's ({})", cls, b.len(), field));
                                if matches!(model::check_aux(cfg.hash.spec(), &cfg.params, &cfg.seed, b), AuxCheck::Invalid(_)) {
                                    self.violate("C11", format!("aux-wrong-result:keygen:{}", cls), "err-or-correct", format!("keygen with a malformed / unauthentic aux buffer ({}, {} bytes) returned a wrong public key", cls, b.len()));
                                }
                            }
                        }
                    }
                    self.oracle_evaluated();
                }
                let k = &mut self.keys[ki];
                k.generated = true;
                k.prv = prv.clone();
                k.pubk = pubk.clone();
                k.prv_corrupted = false;
            }
            Outcome::Panic(site) => {
                let site = site.clone();
                self.note_panic(&site);
                self.violate("C11", format!("panic:{}", site), "keygen-total", format!("keygen panicked at {} for {}", site, shape_string(cfg.hash, &cfg.params)));
                if aux.is_some() {
                    self.violate("C10", format!("panic:{}", site), "aux-no-panic", format!("keygen with aux {:?} panicked at {}", aux.as_ref().map(|a| (a.1, &a.2)), site));
                }
            }
            Outcome::Err => {
                if lim == Limit::Inside {
                    self.violate("C08", "keygen-err", "keygen-model", format!("keygen refused the valid parameter list {}", shape_string(cfg.hash, &cfg.params)));
                    self.violate("C14", "keygen-err-inside-limits", "limits", format!("keygen refused {} which is inside the build's limits", shape_string(cfg.hash, &cfg.params)));
                } else {
                    self.rep.stats.probe("out-of-limit-list-refused");
                }
            }
            Outcome::Crash => {}
        }
        if lim != Limit::Inside {
            self.fault("param-list-outside-build-limits");
            match &out {
                Outcome::Ok(_) if lim == Limit::Outside => {
                    self.violate("C14", "accepts-out-of-limit", "limits", format!("keygen accepted {} although the build is limited to {} levels, heights {:?}, w >= {:?}", shape_string(cfg.hash, &cfg.params), crate::BUILD_MAX_LEVELS, crate::BUILD_TREE_HEIGHTS, crate::BUILD_MIN_W));
                }
                Outcome::Panic(site) => {
                    let site = site.clone();
                    self.violate("C14", format!("panic:{}", site), "limits", format!("keygen panicked at {} for the out-of-limit list {}", site, shape_string(cfg.hash, &cfg.params)));
                }
                _ => {}
            }
        }
        // aux oracles
        if let (Some((slot, len, fill)), Some(buf)) = (aux, auxbuf) {
            if let Outcome::Ok((prv, pubk)) = &out {
                // (1) transparency against the same op without aux
                let fill_name: &str = match fill {
                    AuxFill::Existing => aux_class(aux_before.as_deref().unwrap_or(&[])),
                    f => fill_class(f),
                };
                if self.opt.transparency {
                    lib::meter_reset();
                    let plain = lib::keygen(cfg.hash, &cfg.params, &cfg.seed, None);
                    let meter_plain = lib::meter_read();
                    match plain {
                        Outcome::Ok((p2, k2)) => {
                            if &p2 != prv || &k2 != pubk {
                                self.violate("C09", "impure:keygen:aux-content", "purity", format!("the generated key pair depends on the content of the aux buffer ({} buffer)", fill_name));
                                self.violate("C10", format!("keygen-transparency:{}", fill_name), "aux-transparency", format!("keygen with a {} aux buffer of {} bytes returned public key {} but {} without aux", fill_name, aux_before.as_ref().map(|b| b.len()).unwrap_or(*len), hex(pubk), hex(&k2)));
                            }
                        }
                        o => self.violate("C10", "keygen-transparency-outcome", "aux-transparency", format!("keygen succeeded with aux but {} without", o.describe())),
                    }
                    if cfg.hash.metered() {
                        self.meter_oracle("keygen", ki, aux_before.as_deref().unwrap_or(&[]), meter_aux, meter_plain, true);
                    }
                    self.oracle_evaluated();
                }
                // (3) layout after filling a fresh all-zero buffer
                if matches!(fill, AuxFill::Zero) {
                    let n = cfg.hash.n();
                    let h0 = cfg.params[0].1;
                    let room_for_all = 4 + n + (1..=h0).map(|l| n << l).sum::<usize>();
                    let chk = if buf.is_empty() { AuxCheck::Unused } else { model::check_aux(cfg.hash.spec(), &cfg.params, &cfg.seed, &buf) };
                    match chk {
                        AuxCheck::Valid { ref levels } => {
                            self.rep.stats.probe("aux-filled-by-keygen");
                            self.rep.stats.probe(&format!("aux-levels-{:?}", levels));
                        }
                        AuxCheck::Unused => {
                            if *len >= room_for_all {
                                self.violate("C10", "keygen-aux-not-filled", "aux-layout", format!("a zero buffer of {} bytes has room for every level but was left unused", len));
                            }
                            self.rep.stats.probe("aux-too-small-left-unused");
                        }
                        AuxCheck::Invalid(why) => {
                            self.violate("C10", "keygen-aux-layout", "aux-layout", format!("keygen filled a fresh {}-byte buffer (shrunk to {}) with a layout the model rejects: {}", len, buf.len(), why));
                        }
                    }
                    if buf.len() > *len {
                        self.violate("C10", "keygen-aux-grow", "aux-layout", "aux slice grew");
                    }
                    self.oracle_evaluated();
                }
            }
            let k = &mut self.keys[ki];
            while k.aux.len() <= *slot {
                k.aux.push(None);
            }
            k.aux[*slot] = Some(buf);
        }
        self.records.push(match out {
            Outcome::Ok((a, b)) => Some(OpRecord { kind: "Keygen", key: ki, prv_in: vec![], msg: vec![], out_a: a, out_b: b, ok: true, via_obj: false }),
            _ => None,
        });
    }

    /// "only MAC-valid buffers are read back", observed through the work meter.
    fn meter_oracle(&mut self, what: &str, ki: usize, aux_before: &[u8], with_aux: u64, without: u64, _keygen: bool) {
        let cfg = self.keys[ki].cfg.clone();
        let class = if aux_before.is_empty() {
            AuxCheck::Invalid("empty".into())
        } else {
            model::check_aux(cfg.hash.spec(), &cfg.params, &cfg.seed, aux_before)
        };
        match class {
            AuxCheck::Valid { .. } => {
                if with_aux < without {
                    self.rep.stats.probe("aux-hit-path-taken");
                } else {
                    self.rep.stats.probe("aux-valid-but-no-saving");
                }
            }
            AuxCheck::Unused => {
                self.rep.stats.probe("aux-fresh-path");
                // a fresh buffer holds nothing to read back: no saving may appear
                if with_aux + 8 < without && aux_before.iter().all(|&b| b == 0) {
                    self.violate("C10", format!("{}-meter-fresh", what), "aux-authenticated", format!("an all-zero aux buffer saved work ({} vs {} finalisations)", with_aux, without));
                }
            }
            AuxCheck::Invalid(why) => {
                self.rep.stats.probe("aux-mac-reject-path");
                if with_aux + 8 < without {
                    self.violate(
                        "C10",
                        format!("{}-meter-unauthenticated", what),
                        "aux-authenticated",
                        format!("an aux buffer the model rejects ({}) was read back: {} finalisations with it, {} without", why, with_aux, without),
                    );
                }
            }
        }
    }

    pub fn op_inject(&mut self, ki: usize, counter: u64) {
        let k = &mut self.keys[ki];
        k.prv = model::prv_blob(&k.cfg.params, counter, &k.cfg.seed);
        k.prv_corrupted = false;
        k.lifetime_seen = None;
        for p in self.procs.iter_mut().filter(|p| p.key == ki) {
            p.mem = None;
        }
        // State injection starts a new hypothetical history of this key — unless it jumps FORWARD, beyond every
        // counter this key has released a signature for: the releases before and after such a jump are a subset
        // of the releases of one honest history (the skipped leaves could have signed anything), so the ledger
        // stays valid across it and two sub-trees that share one-time keys are caught even if they lie far apart.
        let forward = matches!(self.keys[ki].ledger_high, Some(hc) if counter > hc);
        if forward {
            self.rep.stats.probe("forward-jump-keeps-ledger");
        } else {
            self.ledger.retain(|k, _| k.0 != ki);
            self.keys[ki].ledger_high = None;
        }
        self.fault("counter-state-injected");
        self.event(format!("inject k{} counter={}{}", ki, counter, if forward { " (forward jump)" } else { "" }));
        self.records.push(None);
    }

    /// A key file written by a build with wider limits (the blob format is build-independent) whose
    /// parameter list lies beyond this build's limits: every way of using it must end in an error.
    pub fn op_foreign_key(&mut self, ki: usize, counter: u64) {
        let cfg = self.keys[ki].cfg.clone();
        let class = limit_class(&cfg.params);
        self.event(format!("foreign-key k{} counter={} class={:?}", ki, counter, class));
        self.records.push(None);
        if !matches!(class, Limit::Outside) || cfg.params.len() > 8 {
            return;
        }
        let blob = model::prv_blob(&cfg.params, counter, &cfg.seed);
        let shape = shape_string(cfg.hash, &cfg.params);
        let limits = format!("{} levels, heights {:?}, w >= {:?}", crate::BUILD_MAX_LEVELS, crate::BUILD_TREE_HEIGHTS, crate::BUILD_MIN_W);
        self.fault("out-of-limit-key-file");
        let message = content(9, counter ^ 0x5eed);
        // lifetime query on the bytes
        let o = lib::lifetime(cfg.hash, &blob);
        self.oracle_evaluated();
        match &o {
            Outcome::Ok(v) => self.violate("C14", "out-of-limit-key:lifetime-ok", "limits", format!("lifetime query on a stored key for {} returned {} although the build is limited to {}", shape, v, limits)),
            Outcome::Panic(site) => {
                let site = site.clone();
                self.note_panic(&site);
                self.violate("C14", format!("panic:{}", site), "limits", format!("lifetime query panicked at {} on a stored key for the out-of-limit list {}", site, shape));
            }
            _ => {}
        }
        // byte-level sign with a recording callback
        let mut cb_calls = 0usize;
        let mut f = |_new: &[u8]| -> Result<(), ()> {
            cb_calls += 1;
            Ok(())
        };
        let o = lib::sign(cfg.hash, &message, &blob, &mut f, None);
        self.oracle_evaluated();
        match &o {
            Outcome::Ok(sig) => self.violate("C14", "out-of-limit-key:sign-ok", "limits", format!("hbs_lms::sign produced a {}-byte signature from a stored key for {} although the build is limited to {}", sig.len(), shape, limits)),
            Outcome::Panic(site) => {
                let site = site.clone();
                self.note_panic(&site);
                self.violate("C14", format!("panic:{}", site), "limits", format!("hbs_lms::sign panicked at {} on a stored key for the out-of-limit list {}", site, shape));
            }
            _ => {}
        }
        if cb_calls > 0 {
            self.violate("C14", "out-of-limit-key:callback", "limits", format!("the update callback was invoked {} time(s) for a stored key whose list {} is beyond the build's limits", cb_calls, shape));
        }
        // the object API
        match lib::signing_key_from_bytes(cfg.hash, &blob) {
            Outcome::Ok(mut obj) => {
                let lo = obj.lifetime();
                let so = obj.try_sign(&message);
                self.oracle_evaluated();
                if let Outcome::Ok(v) = &lo {
                    self.violate("C14", "out-of-limit-key:lifetime-ok", "limits", format!("SigningKey::get_lifetime on a stored key for {} returned {} although the build is limited to {}", shape, v, limits));
                }
                if so.is_ok() {
                    self.violate("C14", "out-of-limit-key:sign-ok", "limits", format!("SigningKey::try_sign signed with a stored key for {} although the build is limited to {}", shape, limits));
                }
                for (what, site) in [("get_lifetime", lo.panic_site()), ("try_sign", so.panic_site())] {
                    if let Some(site) = site {
                        self.note_panic(&site);
                        self.violate("C14", format!("panic:{}", site), "limits", format!("SigningKey::{} panicked at {} on a stored key for the out-of-limit list {}", what, site, shape));
                    }
                }
                if obj.bytes() != blob {
                    self.violate("C14", "out-of-limit-key:object-changed", "limits", format!("a SigningKey loaded from a stored key for the out-of-limit list {} changed its bytes", shape));
                }
            }
            Outcome::Panic(site) => {
                self.note_panic(&site);
                self.violate("C14", format!("panic:{}", site), "limits", format!("SigningKey::from_bytes panicked at {} on a stored key for the out-of-limit list {}", site, shape));
            }
            _ => {}
        }
    }

    pub fn op_load(&mut self, pi: usize, how: LoadAs) {
        let ki = self.procs[pi].key;
        let bytes = self.keys[ki].prv.clone();
        let hash = self.keys[ki].cfg.hash;
        let desc;
        match how {
            LoadAs::Bytes => {
                self.procs[pi].mem = Some(Mem::Bytes(bytes));
                desc = "bytes".to_string();
            }
            LoadAs::Object => match lib::signing_key_from_bytes(hash, &bytes) {
                Outcome::Ok(o) => {
                    if o.bytes() != bytes {
                        self.violate("C09", "from-bytes-roundtrip", "purity", "SigningKey::from_bytes(x).as_slice() != x");
                    }
                    self.procs[pi].mem = Some(Mem::Obj(o));
                    desc = "object".to_string();
                }
                o => {
                    if let Outcome::Panic(site) = &o {
                        let site = site.clone();
                        self.note_panic(&site);
                        self.violate("C11", format!("panic:{}", site), "from-bytes-total", format!("SigningKey::from_bytes panicked at {}", site));
                    }
                    self.procs[pi].mem = None;
                    desc = format!("object:{}", o.describe());
                }
            },
        }
        self.fault("restart");
        self.event(format!("load p{} {}", pi, desc));
        self.records.push(None);
    }

    pub fn op_kill(&mut self, pi: usize) {
        self.procs[pi].mem = None;
        self.fault("restart");
        self.event(format!("kill p{}", pi));
        self.records.push(None);
    }

    fn ensure_loaded(&mut self, pi: usize, api: Api) {
        let want_obj = !matches!(api, Api::Fn);
        let ok = match (&self.procs[pi].mem, want_obj) {
            (Some(Mem::Bytes(_)), false) => true,
            (Some(Mem::Obj(_)), true) => true,
            _ => false,
        };
        if !ok {
            // the other handle's bytes are carried over if the process is alive (same memory), else
            // reload from durable state
            let ki = self.procs[pi].key;
            let bytes = match &self.procs[pi].mem {
                Some(Mem::Bytes(b)) => b.clone(),
                Some(Mem::Obj(o)) => o.bytes(),
                None => self.keys[ki].prv.clone(),
            };
            let hash = self.keys[ki].cfg.hash;
            self.procs[pi].mem = if want_obj {
                match lib::signing_key_from_bytes(hash, &bytes) {
                    Outcome::Ok(o) => Some(Mem::Obj(o)),
                    _ => Some(Mem::Bytes(bytes)),
                }
            } else {
                Some(Mem::Bytes(bytes))
            };
        }
    }

    // -----------------------------------------------------------------------------------------
    // signing
    // -----------------------------------------------------------------------------------------
    pub fn op_sign(&mut self, pi: usize, msg: &Msg, api: Api, cb: Cb, aux_slot: Option<usize>) {
        let ki = self.procs[pi].key;
        if !self.keys[ki].generated {
            self.event(format!("sign p{} skipped: key not generated", pi));
            self.records.push(None);
            return;
        }
        self.ensure_loaded(pi, api);
        let hash = self.keys[ki].cfg.hash;
        let n = hash.n();
        let message = self.next_message.take().unwrap_or_else(|| content(msg.len, msg.cseed));
        if msg.len >= 4096 {
            self.rep.stats.probe("message>=4KiB");
        }
        if msg.len == 0 {
            self.rep.stats.probe("message-empty");
        }
        let mut auxbuf: Option<Vec<u8>> = aux_slot.and_then(|s| self.keys[ki].aux.get(s).cloned().flatten());
        let aux_before = auxbuf.clone();
        let api_eff = match (&self.procs[pi].mem, api) {
            (Some(Mem::Bytes(_)), _) => Api::Fn,
            (_, a) => a,
        };
        let kb: Vec<u8> = match &self.procs[pi].mem {
            Some(Mem::Bytes(b)) => b.clone(),
            Some(Mem::Obj(o)) => o.bytes(),
            None => unreachable!(),
        };
        let decoded = model::decode_prv(n, &kb, H2_KNOWN);

        // ---- the call ----
        let mut cb_log: Vec<(Vec<u8>, bool)> = vec![];
        let mut durable_write: Option<Vec<u8>> = None;
        lib::meter_reset();
        let outcome: Outcome<Vec<u8>> = match api_eff {
            Api::Fn => {
                let mut f = |new: &[u8]| -> Result<(), ()> {
                    match cb {
                        Cb::Accept | Cb::CrashAfterReturn => {
                            cb_log.push((new.to_vec(), true));
                            durable_write = Some(new.to_vec());
                            Ok(())
                        }
                        Cb::Reject => {
                            cb_log.push((new.to_vec(), false));
                            Err(())
                        }
                        Cb::RejectOnce => {
                            if cb_log.is_empty() {
                                cb_log.push((new.to_vec(), false));
                                Err(())
                            } else {
                                cb_log.push((new.to_vec(), true));
                                durable_write = Some(new.to_vec());
                                Ok(())
                            }
                        }
                        Cb::CrashBeforeDurable => {
                            cb_log.push((new.to_vec(), true));
                            lib::simulate_crash()
                        }
                        Cb::CrashAfterDurable => {
                            cb_log.push((new.to_vec(), true));
                            durable_write = Some(new.to_vec());
                            lib::simulate_crash()
                        }
                    }
                };
                lib::sign(hash, &message, &kb, &mut f, auxbuf.as_mut())
            }
            Api::Obj | Api::ObjAux => {
                let obj = match self.procs[pi].mem.as_mut() {
                    Some(Mem::Obj(o)) => o,
                    _ => unreachable!(),
                };
                if matches!(api_eff, Api::Obj) {
                    auxbuf = None;
                    obj.try_sign(&message)
                } else {
                    obj.try_sign_with_aux(&message, auxbuf.as_mut())
                }
            }
        };
        let meter_with = lib::meter_read();
        self.rep.stats.hash_finalisations += meter_with;
        self.rep.stats.sign_calls += 1;

        // ---- effects on the simulated world ----
        let mut released = false;
        let mut successor_seen: Option<Vec<u8>> = None;
        match api_eff {
            Api::Fn => {
                if let Some(w) = &durable_write {
                    self.keys[ki].prv = w.clone();
                }
                match (&outcome, cb) {
                    (Outcome::Crash, _) => {
                        self.procs[pi].mem = None;
                        self.fault(if matches!(cb, Cb::CrashBeforeDurable) { "crash-before-durable" } else { "crash-after-durable" });
                    }
                    (Outcome::Ok(_), Cb::CrashAfterReturn) => {
                        self.procs[pi].mem = None;
                        self.fault("crash-after-return");
                    }
                    (Outcome::Ok(_), _) => {
                        released = true;
                        if let Some(w) = &durable_write {
                            self.procs[pi].mem = Some(Mem::Bytes(w.clone()));
                        }
                    }
                    (_, Cb::Reject) | (_, Cb::RejectOnce) => {
                        if !cb_log.is_empty() {
                            self.fault("cb-reject");
                        }
                    }
                    _ => {}
                }
                if let Some((arg, _)) = cb_log.first() {
                    successor_seen = Some(arg.clone());
                }
            }
            Api::Obj | Api::ObjAux => {
                let post = match &self.procs[pi].mem {
                    Some(Mem::Obj(o)) => o.bytes(),
                    _ => unreachable!(),
                };
                // object API: the internal callback cannot be observed; the post-state stands in
                match &outcome {
                    Outcome::Ok(_) => {
                        successor_seen = Some(post.clone());
                        match cb {
                            Cb::CrashBeforeDurable => {
                                // died after try_sign, before the caller persisted: nothing released
                                self.procs[pi].mem = None;
                                self.fault("crash-before-durable");
                            }
                            Cb::CrashAfterDurable | Cb::CrashAfterReturn => {
                                self.keys[ki].prv = post.clone();
                                self.procs[pi].mem = None;
                                self.fault("crash-after-durable");
                            }
                            Cb::Accept | Cb::Reject | Cb::RejectOnce => {
                                self.keys[ki].prv = post.clone();
                                released = true;
                            }
                        }
                    }
                    _ => {
                        if post != kb {
                            self.violate("C04", "obj-err-state-changed", "callback-automaton", format!("try_sign returned {} but the key object changed from {} to {}", outcome.describe(), short_hex(&kb), short_hex(&post)));
                        }
                    }
                }
            }
        }
        // keep what the library left in the aux slot
        if let (Some(slot), Some(buf)) = (aux_slot, auxbuf.clone()) {
            if !matches!(outcome, Outcome::Panic(_)) || true {
                self.keys[ki].aux[slot] = Some(buf);
            }
        }

        let counter_s = match &decoded {
            Decoded::Valid { counter, .. } => format!("c={}", counter),
            Decoded::OutOfRange { .. } => "out-of-range".into(),
            Decoded::Malformed(w) => format!("malformed({})", w),
        };
        self.event(format!(
            "sign p{} k{} {:?} {:?} msg={}B aux={:?} {} -> {} cb={} released={} sig={}",
            pi,
            ki,
            api_eff,
            cb,
            msg.len,
            aux_slot,
            counter_s,
            outcome.describe(),
            cb_log.len(),
            released,
            match &outcome {
                Outcome::Ok(s) => hex(&sha256(s)[..6]),
                _ => "-".into(),
            }
        ));
        if let Outcome::Panic(site) = &outcome {
            let site = site.clone();
            self.note_panic(&site);
        }

        // a released signature must have cost the stored key a leaf (C03: continue from the persisted
        // key without reuse; C05: every release lowers the remaining lifetime by one)
        if released && self.keys[ki].prv == kb {
            self.violate("C03", "released-without-advancing-stored-key", "successor", format!("a signature was released but the persisted key is still {} ({})", short_hex(&kb), counter_s));
            self.violate("C05", "released-without-advancing-stored-key", "lifetime", format!("a signature was released but the persisted key did not lose a leaf ({})", counter_s));
        }

        // ---- oracles ----
        self.cur_aux = match (&aux_before, aux_slot) {
            (Some(b), Some(_)) => {
                let cfg = &self.keys[ki].cfg;
                let acceptable = !b.is_empty() && !matches!(model::check_aux(cfg.hash.spec(), &cfg.params, &cfg.seed, b), AuxCheck::Invalid(_));
                Some((aux_class(b), acceptable))
            }
            _ => None,
        };
        self.sign_oracles(ki, api_eff, cb, &kb, &decoded, &message, &outcome, &cb_log, released, successor_seen.as_deref(), aux_slot.is_some() && aux_before.is_some());
        self.cur_aux = None;

        // transparency (C10): the same call without aux, computed by the library itself
        if self.opt.transparency {
            if let Some(before) = &aux_before {
                lib::meter_reset();
                let mut plain_succ: Option<Vec<u8>> = None;
                let plain = lib::sign(hash, &message, &kb, &mut |k: &[u8]| { plain_succ = Some(k.to_vec()); Ok(()) }, None);
                let meter_plain = lib::meter_read();
                let cls = aux_class(before);
                match (&outcome, &plain) {
                    (Outcome::Ok(a), Outcome::Ok(b)) => {
                        if a != b {
                            self.violate("C09", "impure:sign:aux-content", "purity", format!("the signature depends on the content of the aux buffer ({} buffer of {} bytes, counter {})", cls, before.len(), counter_s));
                            self.violate("C10", format!("sign-transparency:{}", cls), "aux-transparency", format!("signature with a {} aux buffer ({} bytes) differs from the signature without aux (counter {})", cls, before.len(), counter_s));
                        }
                        if let (Some(x), Some(y)) = (&successor_seen, &plain_succ) {
                            if x != y {
                                self.violate("C10", format!("sign-transparency-successor:{}", cls), "aux-transparency", "successor key differs with and without aux");
                            }
                        }
                    }
                    (Outcome::Crash, _) | (_, Outcome::Crash) => {}
                    (Outcome::Err, Outcome::Err) => {}
                    (Outcome::Err, Outcome::Ok(_)) if matches!(cb, Cb::Reject | Cb::RejectOnce) => {}
                    (a, b) => {
                        if a.kind() != b.kind() {
                            let key = match a {
                                Outcome::Panic(s) => format!("panic:{}", s),
                                _ => format!("sign-transparency-outcome:{}", cls),
                            };
                            self.violate("C10", key, "aux-transparency", format!("sign with a {} aux buffer ({} bytes) ended {} but {} without aux", cls, before.len(), a.describe(), b.describe()));
                        }
                    }
                }
                if hash.metered() && outcome.is_ok() {
                    self.meter_oracle("sign", ki, before, meter_with, meter_plain, false);
                }
                self.oracle_evaluated();
            }
        }

        // C09: a valid key and an accepting callback, yet the call failed: does the very same call succeed in
        // a process that has no history?
        if self.opt.purity && matches!(outcome, Outcome::Err) && matches!(cb, Cb::Accept) && !self.keys[ki].prv_corrupted {
            if let Decoded::Valid { .. } = &decoded {
                let cfg = self.keys[ki].cfg.clone();
                if let Some(Some(_)) = crate::purity::sign_in_fresh_process(cfg.hash, &cfg.params, &cfg.seed, &kb, &message) {
                    self.violate("C09", "impure:Sign:fails-after-history", "purity", format!("sign ({}) returned an error in this process but succeeds with the same key bytes and message in a fresh process", counter_s));
                }
                self.oracle_evaluated();
            }
        }

        self.records.push(match (&outcome, &successor_seen) {
            (Outcome::Ok(sig), Some(s)) => Some(OpRecord { kind: "Sign", key: ki, prv_in: kb.clone(), msg: message.clone(), out_a: sig.clone(), out_b: s.clone(), ok: true, via_obj: !matches!(api_eff, Api::Fn) }),
            _ => None,
        });
        if released {
            if let (Outcome::Ok(sig), Decoded::Valid { counter, .. }) = (&outcome, &decoded) {
                self.keys[ki].releases.push(Release { counter: *counter, msg: message, sig: sig.clone(), by_hashsigs: false });
                let hi = self.keys[ki].ledger_high.map_or(*counter, |h| h.max(*counter));
                self.keys[ki].ledger_high = Some(hi);
            }
        }
        self.state_probe(ki);
    }

    #[allow(clippy::too_many_arguments)]
    fn sign_oracles(
        &mut self,
        ki: usize,
        api: Api,
        cb: Cb,
        kb: &[u8],
        decoded: &Decoded,
        message: &[u8],
        outcome: &Outcome<Vec<u8>>,
        cb_log: &[(Vec<u8>, bool)],
        released: bool,
        successor_seen: Option<&[u8]>,
        with_aux: bool,
    ) {
        let cfg = self.keys[ki].cfg.clone();
        let hash = cfg.hash;
        let n = hash.n();
        let shape = shape_string(hash, &cfg.params);
        self.oracle_evaluated();

        // ---- C04: callback protocol automaton (byte API: the log; object API: post-state) ----
        if matches!(api, Api::Fn) {
            if cb_log.len() > 1 {
                self.violate("C04", "cb-twice", "callback-automaton", format!("callback invoked {} times in one call", cb_log.len()));
            }
            match outcome {
                Outcome::Ok(_) => {
                    if cb_log.len() != 1 {
                        self.violate("C04", "ok-without-callback", "callback-automaton", format!("signature returned after {} callback invocations", cb_log.len()));
                    } else if !cb_log[0].1 {
                        self.violate("C04", "ok-after-reject", "callback-automaton", "signature returned although the callback reported failure");
                    }
                }
                Outcome::Err => {
                    if cb_log.len() == 1 && cb_log[0].1 {
                        self.violate("C04", "err-after-accept", "callback-automaton", "sign returned an error after the callback accepted the successor key (leaf consumed, nothing released)");
                    }
                }
                Outcome::Panic(site) => {
                    if !cb_log.is_empty() {
                        self.violate("C04", format!("panic-after-callback:{}", site), "callback-automaton", format!("sign panicked at {} after invoking the callback", site));
                    }
                }
                Outcome::Crash => {}
            }
            if let Some((arg, _)) = cb_log.first() {
                if arg.len() != kb.len() {
                    self.violate("C04", "cb-arg-length", "callback-automaton", format!("callback argument has {} bytes, the key has {}", arg.len(), kb.len()));
                }
            }
        }

        match decoded {
            Decoded::Valid { params, counter, seed } if !self.keys[ki].prv_corrupted || (params == &cfg.params && seed == &cfg.seed) => {
                let hts = heights(params);
                let total: u32 = hts.iter().sum();
                let want_succ = model::successor(params, *counter, seed);
                let last_leaf = total < 64 && (*counter as u128) + 1 == model::total_leaves(&hts);
                if last_leaf {
                    self.rep.stats.probe("last-leaf-signed");
                }
                // successor handed to the callback / left in the object (C03 (4), C04, C05 wipe)
                if let Some(s) = successor_seen {
                    if s != want_succ.as_slice() {
                        let cleared_variant = last_leaf && s.len() == want_succ.len() && s[..8] == [0u8; 8] && s[8..16].iter().all(|&b| b == 0) && s[16..].iter().all(|&b| b == 0);
                        if !cleared_variant {
                            if last_leaf {
                                self.violate("C05", "wipe", "wiped-key", format!("the last leaf handed over {} instead of a wiped key", short_hex(s)));
                                // the successor of the last-leaf key IS the wiped key: anything else is not "the
                                // complete successor private key" either (C04; for the object API its post-state)
                                self.violate("C04", "cb-arg-last-leaf", "callback-automaton", format!("after the last leaf (counter {}) the {} is {} instead of the wiped successor", counter, if matches!(api, Api::Fn) { "callback argument" } else { "key left in the SigningKey object" }, short_hex(s)));
                            } else {
                                self.violate("C03", "successor", "successor", format!("key with counter {} was succeeded by {} (expected counter {})", counter, short_hex(s), counter + 1));
                                self.violate("C04", "cb-arg", "callback-automaton", format!("callback argument {} is not the complete successor key of counter {}", short_hex(s), counter));
                            }
                        }
                    } else if last_leaf {
                        self.rep.stats.probe("wiped-key-handed-over");
                    }
                }
                match outcome {
                    Outcome::Ok(sig) => {
                        self.check_release(ki, params, *counter, seed, message, sig, released);
                    }
                    Outcome::Err => {
                        let excused = matches!(api, Api::Fn) && matches!(cb, Cb::Reject | Cb::RejectOnce) && !cb_log.is_empty() && !cb_log[0].1;
                        if !excused {
                            let key = if with_aux { "sign-err-with-aux" } else { "sign-err" };
                            self.violate("C05", format!("{}:{}", key, levels_class(params)), "lifetime", format!("{} refused to sign with counter {} of {} leaves ({})", api_name(api), counter, model::total_leaves(&hts), shape));
                            if with_aux {
                                self.violate("C10", "sign-err-with-aux", "aux-transparency", "sign failed with an aux buffer");
                            }
                        }
                    }
                    Outcome::Panic(site) => {
                        self.violate("C05", format!("panic:{}", site), "lifetime", format!("{} panicked at {} with in-range counter {} ({})", api_name(api), site, counter, shape));
                        self.violate("C11", format!("panic:{}", site), "sign-total", format!("{} panicked at {} ({})", api_name(api), site, shape));
                        if total >= 64 {
                            self.violate("C13", format!("panic:{}", site), "tall-key", format!("sign panicked at {} for a key of total height {}", site, total));
                        }
                    }
                    Outcome::Crash => {}
                }
            }
            _ => {
                // wiped / exhausted / malformed / out-of-range key: nothing may happen
                let what = match decoded {
                    Decoded::Malformed(w) => format!("malformed key ({})", w),
                    Decoded::OutOfRange { .. } => "key whose counter names no leaf".to_string(),
                    Decoded::Valid { .. } => "corrupted key".to_string(),
                };
                let wiped = kb.len() == 16 + n && kb[8..16].iter().all(|&b| b == 0xff);
                let prop = if wiped && !self.keys[ki].prv_corrupted { "C05" } else { "C11" };
                if wiped {
                    self.rep.stats.probe("sign-on-wiped-key");
                }
                if matches!(decoded, Decoded::Valid { .. }) {
                    // a corrupted blob that still decodes to a valid key of another shape: judged
                    // by the storage profile (model-correct Ok), not here
                    if let (Decoded::Valid { params, counter, seed }, Outcome::Ok(sig)) = (decoded, outcome) {
                        self.check_foreign_valid(ki, params, *counter, seed, message, sig);
                    } else if let Outcome::Panic(site) = outcome {
                        self.violate("C11", format!("panic:{}", site), "sign-total", format!("sign panicked at {} on a corrupted but decodable key", site));
                    }
                    return;
                }
                match outcome {
                    Outcome::Ok(_) => {
                        let key = match decoded {
                            Decoded::OutOfRange { .. } => "sign-ok-out-of-range",
                            _ => "sign-ok-on-bad-key",
                        };
                        self.violate(prop, key, "refusal", format!("sign returned a signature for a {}: {}", what, short_hex(kb)));
                        if matches!(decoded, Decoded::OutOfRange { .. }) {
                            self.violate("C13", key, "refusal", format!("sign accepted a {} ({})", what, short_hex(kb)));
                        }
                    }
                    Outcome::Err => {}
                    Outcome::Panic(site) => {
                        self.violate(prop, format!("panic:{}", site), "refusal", format!("sign panicked at {} on a {}: {}", site, what, short_hex(kb)));
                        if prop == "C05" {
                            self.violate("C11", format!("panic:{}", site), "sign-total", format!("sign panicked at {} on a wiped key", site));
                        }
                    }
                    Outcome::Crash => {}
                }
                if !cb_log.is_empty() {
                    self.violate(prop, "cb-on-bad-key", "refusal", format!("callback invoked for a {}", what));
                    // C04 speaks about calls in which no signature could be produced; a key whose
                    // counter is out of range but which the library signs with anyway is the
                    // business of C11/C13, the callback protocol itself was followed
                    if !matches!(decoded, Decoded::OutOfRange { .. }) || !outcome.is_ok() {
                        self.violate("C04", "cb-on-bad-key", "callback-automaton", format!("callback invoked although no signature could be produced ({})", what));
                    }
                }
            }
        }
    }

    /// A corrupted key file that still decodes to some valid key: Ok must be model-correct (C11).
    fn check_foreign_valid(&mut self, ki: usize, params: &[(u32, u32)], counter: u64, seed: &[u8], message: &[u8], sig: &[u8]) {
        let hash = self.keys[ki].cfg.hash;
        let cost: u64 = params.iter().map(|&(w, h)| (1u64 << h) * (model::ots_params(hash.n(), w).3 as u64) * (1u64 << w)).sum();
        if cost > 3_000_000 {
            self.rep.stats.probe("foreign-valid-key-too-costly-for-model");
            return;
        }
        let key = HssKey { hs: hash.spec(), params: params.to_vec(), seed: seed.to_vec() };
        let pk = key.public_key();
        let cfg = VerifyCfg { h2_known: H2_KNOWN, ls: LsPolicy::K1Adjusted };
        if model::verify::hss_verify(hash.spec(), message, sig, &pk, &cfg).is_err() {
            self.violate("C11", "foreign-valid-wrong-signature", "err-or-correct", format!("a corrupted key blob that decodes to {:?} counter {} produced a signature that does not verify under that key", params, counter));
        }
        self.rep.stats.probe("corrupted-key-still-valid");
    }

    /// Everything that is checked about a signature the library returned for a valid key.
    #[allow(clippy::too_many_arguments)]
    fn check_release(&mut self, ki: usize, params: &[(u32, u32)], counter: u64, seed: &[u8], message: &[u8], sig: &[u8], released: bool) {
        let cfg = self.keys[ki].cfg.clone();
        let hash = cfg.hash;
        let hs = hash.spec();
        let n = hash.n();
        let hts = heights(params);
        let shape = shape_string(hash, params);
        let pubk = self.keys[ki].pubk.clone();
        if released {
            self.rep.stats.releases += 1;
        }
        if params.len() == 8 {
            self.rep.stats.probe("8-level-key-signed");
        }

        // ---- C01: the library's three verification entry points accept ----
        for e in ALL_ENTRIES {
            let v = lib::verify(hash, e, message, sig, &pubk);
            self.rep.stats.verifications += 1;
            match v {
                Outcome::Ok(()) => {}
                o => {
                    let key = match &o {
                        Outcome::Panic(s) => format!("verify-panic:{}", s),
                        _ => format!("released-does-not-verify:{:?}", e),
                    };
                    self.violate("C01", key, "released-verifies", format!("signature for counter {} of {} ({} byte message) -> {:?} says {}", counter, shape, message.len(), e, o.describe()));
                }
            }
        }

        // ---- C07: byte equality with the independent signer; independent verifier accepts ----
        let parts = model::split_signature(hs, sig, H2_KNOWN);
        if self.opt.model_oracles {
            let key = HssKey { hs, params: params.to_vec(), seed: seed.to_vec() };
            let k1_pairs: Vec<(usize, u32)> = params.iter().filter(|p| model::is_k1(n, p.0)).map(|p| (n, p.0)).collect();
            let exact = key.sign(counter, message, LsPolicy::Rfc, CConv::Library).expect("in-range");
            let mut ok = exact == sig;
            if !ok {
                let alt = key.sign(counter, message, LsPolicy::Rfc, CConv::HashSigs).unwrap();
                if alt == sig {
                    ok = true;
                    self.rep.stats.probe("hash-sigs-randomizer-convention");
                }
            }
            if !ok && !k1_pairs.is_empty() {
                // finding-adjusted model: the pinned table value for exactly the K1 pairs
                let adj = key.sign(counter, message, LsPolicy::K1Adjusted, CConv::Library).unwrap();
                let adj2 = key.sign(counter, message, LsPolicy::K1Adjusted, CConv::HashSigs).unwrap();
                if adj == sig || adj2 == sig {
                    ok = true;
                    let mut seen = vec![];
                    for (nn, w) in k1_pairs {
                        if !seen.contains(&w) {
                            seen.push(w);
                            self.violate(
                                "C07",
                                format!("lmots-ls:n={},w={}", nn, w),
                                "rfc-exact-signature",
                                format!("LM-OTS parts with (n={}, w={}) use checksum shift {} where Appendix B gives {}; otherwise byte-identical to the reference signer", nn, w, model::library_ls(nn, w), model::ots_params(nn, w).2),
                            );
                        }
                    }
                }
            }
            if !ok {
                let field = match &parts {
                    Ok(p) => first_sig_diff(hs, &exact, sig, p),
                    Err(e) => format!("unparseable: {}", e),
                };
                self.violate("C07", format!("sig-differs:{}", field_class(&field)), "rfc-exact-signature", format!("signature for counter {} of {} differs from the reference signer, first in {}", counter, shape, field));
                // the same deviation seen from the cache file's side: with an aux buffer the result must be
                // the result without one (C10), and a buffer the model rejects must lead to an error or a
                // correct result (C11)
                if let Some((cls, acceptable)) = self.cur_aux {
                    self.violate("C10", format!("sign-wrong-result-with-aux:{}", cls), "aux-transparency", format!("signature made with a {} aux buffer (counter {} of {}) is not the signature of this key and message, first difference in {}", cls, counter, shape, field));
                    if !acceptable {
                        self.violate("C11", format!("aux-wrong-result:sign:{}", cls), "err-or-correct", format!("sign with a malformed / unauthentic aux buffer ({}) returned a wrong signature (counter {} of {})", cls, counter, shape));
                    }
                }
            }
            if sig.len() != model::sig_len(n, params) {
                self.violate("C07", "sig-length", "rfc-exact-signature", format!("signature has {} bytes, the RFC formulas give {}", sig.len(), model::sig_len(n, params)));
            }
            let vcfg = VerifyCfg { h2_known: H2_KNOWN, ls: LsPolicy::K1Adjusted };
            if let Err(r) = model::verify::hss_verify(hs, message, sig, &pubk, &vcfg) {
                self.violate("C07", format!("independent-verifier:{:?}", r), "independent-verifier", format!("the independent verifier rejects the released signature for counter {} of {}: {:?}", counter, shape, r));
            }
        }

        // ---- C03: leaf digits, ledger ----
        match &parts {
            Ok(parts) => {
                let want_q = model::leaves_of(&hts, counter).expect("in-range");
                let got_q: Vec<u32> = parts.iter().map(|p| p.q).collect();
                if got_q != want_q {
                    self.violate("C03", "leaf-digits", "mixed-radix", format!("counter {} of heights {:?} must use leaves {:?}, signature uses {:?}", counter, hts, want_q, got_q));
                    self.violate("C13", "leaf-digits", "mixed-radix", format!("counter {} of heights {:?} must use leaves {:?}, signature uses {:?}", counter, hts, want_q, got_q));
                }
                // roll-over probe: a lower digit is zero while an upper is non-zero
                for l in 1..want_q.len() {
                    if want_q[l] == 0 && want_q[..l].iter().any(|&q| q != 0) {
                        self.rep.stats.probe(&format!("first-leaf-of-fresh-subtree-level-{}", l));
                    }
                }
                if released {
                    self.ledger_check(ki, parts, &pubk, message, "library");
                }
            }
            Err(e) => {
                self.violate("C07", "unparseable", "rfc-exact-signature", format!("released signature does not parse: {}", e));
            }
        }
    }

    /// Release ledger: (key, tree identifier, leaf) -> hash of the signed content.  Runs over the
    /// signatures of every implementation that uses the key file.
    pub fn ledger_check(&mut self, ki: usize, parts: &[model::LmsPart], pubk: &[u8], message: &[u8], by: &str) {
        let mut ident = if pubk.len() >= 28 { pubk[12..28].to_vec() } else { vec![0; 16] };
        for (lvl, p) in parts.iter().enumerate() {
            let signed: &[u8] = if lvl + 1 < parts.len() { &p.child_pub } else { message };
            let h = sha256(signed);
            let k = (ki, ident.clone(), p.q);
            match self.ledger.get(&k) {
                Some((h0, first_op)) if *h0 != h => {
                    let first_op = *first_op;
                    let detail = format!("one-time key (I={}, q={}) at level {} signed two different contents (first at op {}, again now by {})", hex(&ident), p.q, lvl, first_op, by);
                    self.violate("C03", format!("ots-reuse:level{}of{}", lvl, parts.len()), "ledger", detail.clone());
                    if by != "library" {
                        self.violate("C13", format!("ots-reuse-across-implementations:level{}of{}", lvl, parts.len()), "ledger", detail);
                    }
                }
                Some(_) => {}
                None => {
                    self.ledger.insert(k, (h, self.op_index));
                }
            }
            if lvl + 1 < parts.len() && p.child_pub.len() >= 24 {
                ident = p.child_pub[8..24].to_vec();
            }
        }
    }

    // -----------------------------------------------------------------------------------------
    // lifetime
    // -----------------------------------------------------------------------------------------
    pub fn op_lifetime(&mut self, pi: usize) {
        let ki = self.procs[pi].key;
        if !self.keys[ki].generated {
            self.records.push(None);
            return;
        }
        let hash = self.keys[ki].cfg.hash;
        let n = hash.n();
        let (kb, out) = match &self.procs[pi].mem {
            Some(Mem::Obj(o)) => (o.bytes(), o.lifetime()),
            Some(Mem::Bytes(b)) => (b.clone(), lib::lifetime(hash, b)),
            None => {
                let b = self.keys[ki].prv.clone();
                let o = lib::lifetime(hash, &b);
                (b, o)
            }
        };
        let decoded = model::decode_prv(n, &kb, H2_KNOWN);
        self.event(format!("lifetime p{} -> {}", pi, match &out { Outcome::Ok(v) => format!("ok({})", v), o => o.describe() }));
        self.oracle_evaluated();
        if let Outcome::Panic(site) = &out {
            let site = site.clone();
            self.note_panic(&site);
        }
        match &decoded {
            Decoded::Valid { params, counter, .. } => {
                let hts = heights(params);
                let total: u32 = hts.iter().sum();
                let prop = if self.keys[ki].prv_corrupted { "C11" } else { "C05" };
                match &out {
                    Outcome::Ok(v) => {
                        if total < 64 {
                            let want = (model::total_leaves(&hts) - *counter as u128) as u64;
                            if *v != want {
                                self.violate(prop, "lifetime-value", "lifetime", format!("remaining lifetime of counter {} with heights {:?} reported as {}, expected {}", counter, hts, v, want));
                                self.violate("C13", "lifetime-value", "lifetime", format!("remaining lifetime of counter {} with heights {:?} reported as {}, expected {}", counter, hts, v, want));
                            }
                        } else if *v == 0 {
                            self.violate("C13", "lifetime-zero-tall", "tall-key", "a tall key with leaves remaining reports lifetime 0");
                        }
                    }
                    Outcome::Err => {
                        self.violate(prop, format!("lifetime-err:{}", levels_class(params)), "lifetime", format!("lifetime query failed for valid key with counter {} heights {:?}", counter, hts));
                    }
                    Outcome::Panic(site) => {
                        self.violate(prop, format!("panic:{}", site), "lifetime", format!("lifetime query panicked at {} (heights {:?})", site, hts));
                        self.violate("C11", format!("panic:{}", site), "lifetime-total", format!("lifetime query panicked at {} (heights {:?})", site, hts));
                        if total >= 64 {
                            self.violate("C13", format!("panic:{}", site), "tall-key", format!("lifetime query panicked at {} for total height {}", site, total));
                        }
                    }
                    Outcome::Crash => {}
                }
            }
            other => {
                let wiped = kb.len() == 16 + n && kb[8..16].iter().all(|&b| b == 0xff);
                let prop = if wiped && !self.keys[ki].prv_corrupted { "C05" } else { "C11" };
                match &out {
                    Outcome::Ok(v) => {
                        let key = if matches!(other, Decoded::OutOfRange { .. }) { "lifetime-ok-out-of-range" } else { "lifetime-ok-on-bad-key" };
                        self.violate(prop, key, "refusal", format!("lifetime query on {:?} key {} returned {}", other, short_hex(&kb), v));
                    }
                    Outcome::Panic(site) => {
                        self.violate(prop, format!("panic:{}", site), "refusal", format!("lifetime query panicked at {} on {}", site, short_hex(&kb)));
                        if prop != "C11" {
                            self.violate("C11", format!("panic:{}", site), "lifetime-total", format!("lifetime query panicked at {} on {}", site, short_hex(&kb)));
                        }
                    }
                    _ => {}
                }
            }
        }
        self.records.push(None);
    }

    // -----------------------------------------------------------------------------------------
    // aux / prv storage faults
    // -----------------------------------------------------------------------------------------
    pub fn op_new_aux(&mut self, ki: usize, slot: usize, len: usize, fill: &AuxFill) {
        let k = &mut self.keys[ki];
        while k.aux.len() <= slot {
            k.aux.push(None);
        }
        k.aux[slot] = Some(make_aux(len, fill));
        self.event(format!("newaux k{} s{} {}B {}", ki, slot, len, fill_class(fill)));
        self.records.push(None);
    }

    pub fn op_aux_fault(&mut self, ki: usize, slot: usize, fault: &AuxFault) {
        let src = if let AuxFault::CopyFrom { key, slot } = fault { self.keys.get(*key).and_then(|k| k.aux.get(*slot).cloned().flatten()) } else { None };
        let n = self.keys[ki].cfg.hash.n();
        let fired;
        {
            let k = &mut self.keys[ki];
            while k.aux.len() <= slot {
                k.aux.push(None);
            }
            let cur = k.aux[slot].get_or_insert_with(Vec::new);
            let before = cur.clone();
            apply_aux_fault(cur, fault, src, n);
            fired = *cur != before;
        }
        if fired {
            self.fault(&format!("aux-{}", aux_fault_name(fault)));
        }
        self.event(format!("auxfault k{} s{} {:?} fired={}", ki, slot, fault, fired));
        self.records.push(None);
    }

    pub fn op_prv_fault(&mut self, ki: usize, fault: &PrvFault) {
        let n = self.keys[ki].cfg.hash.n();
        let before = self.keys[ki].prv.clone();
        let mut cur = before.clone();
        match fault {
            PrvFault::SetLen { len, fill } => cur.resize(*len, *fill),
            PrvFault::ParamByte { idx, val } => {
                if cur.len() >= 16 {
                    cur[8 + (*idx as usize % 8)] = *val;
                }
            }
            PrvFault::Counter { val } => {
                if cur.len() >= 8 {
                    cur[..8].copy_from_slice(&val.to_be_bytes());
                }
            }
            PrvFault::BitFlip { pos, bit } => {
                if !cur.is_empty() {
                    let p = frac(*pos, cur.len());
                    cur[p] ^= 1 << (bit % 8);
                }
            }
            PrvFault::Wiped => cur = model::wiped_blob(n),
            PrvFault::ForeignExhausted => cur = vec![0xff; 16 + n],
            PrvFault::Replace { bytes } => cur = bytes.clone(),
        }
        let fired = cur != before;
        self.keys[ki].prv = cur;
        self.keys[ki].prv_corrupted = true;
        for p in self.procs.iter_mut().filter(|p| p.key == ki) {
            p.mem = None;
        }
        if fired {
            self.fault(&format!("prv-{}", prv_fault_name(fault)));
        }
        self.event(format!("prvfault k{} {:?} fired={}", ki, fault, fired));
        self.records.push(None);
    }
}

#[derive(Clone, Copy, PartialEq, Eq, Debug)]
pub enum Limit {
    Inside,
    /// breaks only a per-level limit but fits the global maxima: Err or a fully correct result
    PerLevel,
    /// more levels than allowed, a height above the largest configured one, or a w below the
    /// smallest configured one
    Outside,
}
pub fn limit_class(params: &[(u32, u32)]) -> Limit {
    let hmax = *crate::BUILD_TREE_HEIGHTS.iter().max().unwrap();
    let wmin = *crate::BUILD_MIN_W.iter().min().unwrap();
    if params.len() > crate::BUILD_MAX_LEVELS || params.iter().any(|&(w, h)| h > hmax || w < wmin) {
        return Limit::Outside;
    }
    if crate::gen::in_build_limits(params) {
        Limit::Inside
    } else {
        Limit::PerLevel
    }
}

pub fn api_name(a: Api) -> &'static str {
    match a {
        Api::Fn => "hbs_lms::sign",
        Api::Obj => "SigningKey::try_sign",
        Api::ObjAux => "SigningKey::try_sign_with_aux",
    }
}
pub fn levels_class(params: &[(u32, u32)]) -> String {
    format!("L={}", params.len())
}

pub fn frac(pos: Frac, len: usize) -> usize {
    if len == 0 {
        return 0;
    }
    (((pos as u64) * (len as u64)) >> 32) as usize
}

pub fn make_aux(len: usize, fill: &AuxFill) -> Vec<u8> {
    match fill {
        AuxFill::Zero => vec![0u8; len],
        AuxFill::DirtyFresh(s) => {
            let mut v = Rng::new(*s).bytes(len);
            if !v.is_empty() {
                v[0] = 0;
            }
            v
        }
        AuxFill::Garbage(s) => {
            let mut v = Rng::new(*s).bytes(len);
            if !v.is_empty() && v[0] == 0 {
                v[0] = 0x80;
            }
            v
        }
        AuxFill::Existing => vec![0u8; len],
    }
}
pub fn fill_class(f: &AuxFill) -> &'static str {
    match f {
        AuxFill::Zero => "all-zero",
        AuxFill::DirtyFresh(_) => "dirty-fresh",
        AuxFill::Garbage(_) => "garbage",
        AuxFill::Existing => "existing",
    }
}
/// coarse class of an aux buffer for violation keys
pub fn aux_class(b: &[u8]) -> &'static str {
    if b.is_empty() {
        "empty"
    } else if b.iter().all(|&x| x == 0) {
        "all-zero"
    } else if b[0] == 0 {
        "dirty-fresh"
    } else {
        "in-use"
    }
}
pub fn aux_fault_name(f: &AuxFault) -> &'static str {
    match f {
        AuxFault::BitFlip { .. } | AuxFault::BitFlipAt { .. } => "bitflip",
        AuxFault::TruncateTo { .. } | AuxFault::Truncate { .. } => "truncate",
        AuxFault::Pad { .. } => "pad",
        AuxFault::Zero => "zero",
        AuxFault::Garbage { .. } => "garbage",
        AuxFault::MarkerOnly => "marker-only",
        AuxFault::LevelWord { .. } | AuxFault::LevelWordByte { .. } => "levelword",
        AuxFault::CopyFrom { .. } => "stale-or-foreign",
        AuxFault::MacBit { .. } => "mac-bit",
        AuxFault::NodeZero { .. } => "node-zero",
        AuxFault::DropMac => "drop-mac",
    }
}
pub fn prv_fault_name(f: &PrvFault) -> &'static str {
    match f {
        PrvFault::SetLen { .. } => "length",
        PrvFault::ParamByte { .. } => "parambyte",
        PrvFault::Counter { .. } => "counter",
        PrvFault::BitFlip { .. } => "bitflip",
        PrvFault::Wiped => "wiped",
        PrvFault::ForeignExhausted => "foreign-exhausted",
        PrvFault::Replace { .. } => "replace",
    }
}
pub fn apply_aux_fault(cur: &mut Vec<u8>, fault: &AuxFault, src: Option<Vec<u8>>, n: usize) {
    match fault {
        AuxFault::BitFlip { pos, bit } => {
            if !cur.is_empty() {
                let p = frac(*pos, cur.len());
                cur[p] ^= 1 << (bit % 8);
            }
        }
        AuxFault::BitFlipAt { byte, bit } => {
            if *byte < cur.len() {
                cur[*byte] ^= 1 << (bit % 8);
            }
        }
        AuxFault::TruncateTo { len } => cur.truncate(*len),
        AuxFault::Truncate { len } => {
            let l = frac(*len, cur.len());
            cur.truncate(l)
        }
        AuxFault::Pad { bytes } => cur.extend_from_slice(bytes),
        AuxFault::Zero => cur.iter_mut().for_each(|b| *b = 0),
        AuxFault::Garbage { cseed } => {
            let l = cur.len();
            *cur = make_aux(l, &AuxFill::Garbage(*cseed));
        }
        AuxFault::MarkerOnly => {
            for b in cur.iter_mut().skip(4) {
                *b = 0;
            }
        }
        AuxFault::LevelWord { val } => {
            if cur.len() >= 4 {
                cur[..4].copy_from_slice(&val.to_be_bytes());
            }
        }
        AuxFault::LevelWordByte { idx, val } => {
            let i = (*idx % 4) as usize;
            if i < cur.len() {
                cur[i] = *val;
            }
        }
        AuxFault::CopyFrom { .. } => {
            if let Some(s) = src {
                *cur = s;
            }
        }
        AuxFault::MacBit { bit } => {
            if cur.len() >= n && n > 0 {
                let off = cur.len() - n;
                let b = (*bit as usize) % (8 * n);
                cur[off + b / 8] ^= 1 << (b % 8);
            }
        }
        AuxFault::DropMac => {
            let l = cur.len().saturating_sub(n);
            cur.truncate(l);
        }
        AuxFault::NodeZero { pos } => {
            if cur.len() > 4 + 2 * n {
                let nodes = (cur.len() - 4 - n) / n;
                if nodes > 0 {
                    let k = frac(*pos, nodes);
                    for b in &mut cur[4 + k * n..4 + (k + 1) * n] {
                        *b = 0;
                    }
                }
            }
        }
    }
}

fn first_pub_diff(a: &[u8], b: &[u8]) -> &'static str {
    if a.len() != b.len() {
        return "length";
    }
    let fields: [(&str, usize, usize); 5] = [("levels", 0, 4), ("lms-type", 4, 8), ("ots-type", 8, 12), ("identifier", 12, 28), ("root", 28, a.len())];
    for (name, s, e) in fields {
        if e <= a.len() && a[s..e] != b[s..e] {
            return name;
        }
    }
    "none"
}

/// Name the first field in which `got` differs from the model's `want` (layout from `got`'s parse).
fn first_sig_diff(hs: model::HashSpec, want: &[u8], got: &[u8], parts: &[model::LmsPart]) -> String {
    let n = hs.n;
    let first = want.iter().zip(got.iter()).position(|(a, b)| a != b).unwrap_or(want.len().min(got.len()));
    if first < 4 {
        return "Nspk".into();
    }
    for (lvl, p) in parts.iter().enumerate() {
        let ylen = p.y.len();
        let mut off = p.offset;
        let fields = [("q", 4), ("ots-type", 4), ("C", n), ("y", ylen), ("lms-type", 4), ("path", p.path.len()), ("child-pub", p.child_pub.len())];
        for (name, len) in fields {
            if first < off + len {
                if name == "y" {
                    return format!("level {} y[{}]", lvl, (first - off) / n);
                }
                if name == "path" {
                    return format!("level {} path[{}]", lvl, (first - off) / n);
                }
                return format!("level {} {}", lvl, name);
            }
            off += len;
        }
    }
    format!("offset {}", first)
}
fn field_class(f: &str) -> String {
    // strip indices so that the matcher key is stable: "level 0 y[12]" -> "y"
    let t = f.split_whitespace().last().unwrap_or(f);
    t.split('[').next().unwrap_or(t).to_string()
}

// ---------------------------------------------------------------------------------------------
// running a whole plan
// ---------------------------------------------------------------------------------------------
pub fn options_for(profile: &str) -> Options {
    let mut o = Options::default();
    match profile {
        "aux" | "tall" | "aux-proc" => o.transparency = true,
        "purity" => {
            o.model_oracles = false;
            o.purity = true;
        }
        "purity-proc" => o.purity = true,
        _ => {}
    }
    o
}

pub fn run_plan(plan: &Plan, keep_events: bool) -> RunReport {
    let mut opt = options_for(&plan.profile);
    opt.keep_events = keep_events;
    let mut w = World::new(plan, opt);
    for (i, op) in plan.ops.iter().enumerate() {
        w.op_index = i;
        w.rep.stats.steps += 1;
        match op {
            Op::Keygen { key, aux } => {
                if *key < w.keys.len() {
                    w.op_keygen(*key, aux)
                }
            }
            Op::KeygenLen { key, len } => {
                if *key < w.keys.len() {
                    crate::storage::op_keygen_len(&mut w, *key, *len)
                }
            }
            Op::Inject { key, counter } => {
                if *key < w.keys.len() {
                    w.op_inject(*key, *counter)
                }
            }
            Op::ForeignKey { key, counter } => {
                if *key < w.keys.len() {
                    w.op_foreign_key(*key, *counter)
                }
            }
            Op::ChildKeyAsNextMessage { child, lms_type, ots_type } => {
                if *child < w.keys.len() && w.keys[*child].pubk.len() > 12 {
                    let mut b = w.keys[*child].pubk[4..].to_vec();
                    if let Some(t) = lms_type {
                        b[0..4].copy_from_slice(&t.to_be_bytes());
                    }
                    if let Some(t) = ots_type {
                        b[4..8].copy_from_slice(&t.to_be_bytes());
                    }
                    w.event(format!("next message = public key of k{} (lms type {:?}, ots type {:?})", child, lms_type, ots_type));
                    w.next_message = Some(b);
                }
            }
            Op::Load { proc, how } => {
                if *proc < w.procs.len() {
                    w.op_load(*proc, *how)
                }
            }
            Op::Sign { proc, msg, api, cb, aux } => {
                if *proc < w.procs.len() {
                    w.op_sign(*proc, msg, *api, *cb, *aux)
                }
            }
            Op::Lifetime { proc } => {
                if *proc < w.procs.len() {
                    w.op_lifetime(*proc)
                }
            }
            Op::Kill { proc } => {
                if *proc < w.procs.len() {
                    w.op_kill(*proc)
                }
            }
            Op::NewAux { key, slot, len, fill } => {
                if *key < w.keys.len() {
                    w.op_new_aux(*key, *slot, *len, fill)
                }
            }
            Op::AuxFault { key, slot, fault } => {
                if *key < w.keys.len() {
                    w.op_aux_fault(*key, *slot, fault)
                }
            }
            Op::PrvFault { key, fault } => {
                if *key < w.keys.len() {
                    w.op_prv_fault(*key, fault)
                }
            }
            Op::Send { key, release } => crate::wire::op_send(&mut w, *key, *release),
            Op::Deliver { env, fault, entry } => crate::wire::op_deliver(&mut w, *env, fault, *entry),
            Op::Handover { key, advance, msgs } => crate::handover::op_handover(&mut w, *key, *advance, *msgs),
            Op::Recheck { op_ref, ctx } => crate::purity::op_recheck(&mut w, *op_ref, *ctx),
            Op::Arith { heights, start, steps } => crate::radix::op_arith(&mut w, heights, *start, *steps),
            Op::HsKeygen { key } => crate::radix::op_hs_keygen(&mut w, *key),
        }
        while w.records.len() <= i {
            w.records.push(None);
        }
    }
    // distinctness signature: configuration, op-kind sequence, fault-fired set
    let mut s = String::new();
    for k in &plan.keys {
        s.push_str(&shape_string(k.hash, &k.params));
        s.push('|');
    }
    for op in &plan.ops {
        s.push_str(op.kind());
        if let Op::Sign { api, cb, aux, .. } = op {
            s.push_str(&format!("{:?}{:?}{}", api, cb, aux.is_some()));
        }
        if let Op::Deliver { fault, .. } = op {
            s.push_str(crate::wire::fault_name(fault));
        }
        if let Op::Arith { heights, .. } = op {
            s.push_str(&format!("{:?}", heights));
        }
        s.push(',');
    }
    for (k, _) in &w.rep.stats.fault_fired {
        s.push_str(k);
    }
    w.rep.signature = fnv1a(s.as_bytes());
    model::clear_tree_cache();
    w.rep
}
