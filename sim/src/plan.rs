//! Run plans: a configuration plus a list of concrete operations.  A plan is generated from the PRNG
//! once; executing it draws nothing from the PRNG (replay and minimisation work on the plan).

use crate::lib_iface::{HashId, VerifyEntry};
use crate::util::hexs;
use serde::{Deserialize, Serialize};

#[derive(Serialize, Deserialize, Clone, Debug, PartialEq)]
pub struct KeyCfg {
    pub hash: HashId,
    /// (w, h) per level, top first
    pub params: Vec<(u32, u32)>,
    #[serde(with = "hexs")]
    pub seed: Vec<u8>,
}

#[derive(Serialize, Deserialize, Clone, Copy, Debug, PartialEq, Eq, Hash)]
pub struct Msg {
    pub len: usize,
    pub cseed: u64,
}

#[derive(Serialize, Deserialize, Clone, Copy, Debug, PartialEq, Eq, Hash, PartialOrd, Ord)]
pub enum Api {
    /// hbs_lms::sign on bytes with the caller's callback
    Fn,
    /// SigningKey::try_sign on a live object
    Obj,
    /// SigningKey::try_sign_with_aux on a live object
    ObjAux,
}

#[derive(Serialize, Deserialize, Clone, Copy, Debug, PartialEq, Eq, Hash, PartialOrd, Ord)]
pub enum Cb {
    Accept,
    /// callback returns Err (disk full / EIO); durable state unchanged
    Reject,
    /// transient storage error: the first invocation in this call returns Err, any further
    /// invocation in the same call would be accepted (and written)
    RejectOnce,
    /// process dies inside the callback before the write is durable
    CrashBeforeDurable,
    /// write durable, process dies before sign returns
    CrashAfterDurable,
    /// sign returned, process dies before the signature leaves it
    CrashAfterReturn,
}

#[derive(Serialize, Deserialize, Clone, Copy, Debug, PartialEq, Eq, Hash, PartialOrd, Ord)]
pub enum LoadAs {
    Bytes,
    Object,
}

#[derive(Serialize, Deserialize, Clone, Debug, PartialEq, Eq, Hash)]
pub enum AuxFill {
    Zero,
    /// first byte zero, remainder PRNG bytes ("uninitialised" buffer)
    DirtyFresh(u64),
    /// PRNG bytes, first byte forced non-zero (claims to be in use)
    Garbage(u64),
    /// whatever the slot holds now (length ignored)
    Existing,
}

/// Field selectors inside an HSS signature, resolved at execution time.
#[derive(Serialize, Deserialize, Clone, Copy, Debug, PartialEq, Eq, Hash, PartialOrd, Ord)]
pub enum Field {
    Nspk,
    /// per level (0 = top): the LMS signature's fields
    Q(u8),
    OtsType(u8),
    C(u8),
    Y(u8),
    LmsType(u8),
    Path(u8),
    /// the signed child public key that follows level `l`'s signature: its fields
    ChildLmsType(u8),
    ChildOtsType(u8),
    ChildI(u8),
    ChildRoot(u8),
}
#[derive(Serialize, Deserialize, Clone, Copy, Debug, PartialEq, Eq, Hash, PartialOrd, Ord)]
pub enum PkField {
    Levels,
    LmsType,
    OtsType,
    I,
    Root,
}

/// A position: fraction of a length (numerator / 2^32), resolved at execution time.
pub type Frac = u32;

#[derive(Serialize, Deserialize, Clone, Debug, PartialEq, Eq, Hash)]
pub enum WireFault {
    None,
    Drop,
    Dup,
    /// flip one bit of the signature at a raw position
    SigBit { pos: Frac, bit: u8 },
    SigByte { pos: Frac, val: u8 },
    /// flip one bit at an exact byte offset of the signature / public key
    SigBitAt { byte: usize, bit: u8 },
    PkBitAt { byte: usize, bit: u8 },
    /// flip a bit inside a selected field
    FieldBit { field: Field, pos: Frac, bit: u8 },
    /// overwrite a 4-byte field with a value
    FieldU32 { field: Field, val: u32 },
    /// set one byte (index 0..4) of a 4-byte field
    FieldByte { field: Field, idx: u8, val: u8 },
    SigTruncate { len: Frac },
    SigTruncateTo { len: usize },
    SigExtend { #[serde(with = "hexs")] bytes: Vec<u8> },
    PkBit { pos: Frac, bit: u8 },
    PkFieldU32 { field: PkField, val: u32 },
    PkFieldByte { field: PkField, idx: u8, val: u8 },
    PkTruncateTo { len: usize },
    PkExtend { #[serde(with = "hexs")] bytes: Vec<u8> },
    /// pad the signature / public key with `val` bytes up to a total length (over-long deliveries)
    SigPadTo { len: usize, val: u8 },
    PkPadTo { len: usize, val: u8 },
    MsgBit { pos: Frac, bit: u8 },
    MsgTruncate { len: Frac },
    MsgExtend { #[serde(with = "hexs")] bytes: Vec<u8> },
    /// replace a field by the same field of another envelope (possibly another level there)
    Splice { other: usize, field: Field, other_field: Field },
    /// replace the whole LMS-signature + child-public-key element of level `lvl` by level
    /// `other_lvl` of another envelope
    SpliceElement { other: usize, lvl: u8, other_lvl: u8 },
    SwapMessage { other: usize },
    SwapKey { other: usize },
    /// deliver to a verifier instantiated with another hash
    SwapHash { hash: HashId },
    /// drop the last signed public key and present it as the message; adjust_pk: also lower L
    LevelCut { adjust_pk: bool },
    /// append a level: the message becomes a (fake) child key; adjust_pk: also raise L
    LevelGrow { adjust_pk: bool, other: usize },
    /// replace signature by PRNG bytes of length (valid length + delta)
    RawSig { delta: i32, cseed: u64 },
    RawPk { delta: i32, cseed: u64 },
    /// signature made by the independent model with the RFC checksum shift
    ModelMade,
    /// a chain of `n` well-formed signed-public-key elements (the bottom LMS signature followed by the
    /// top-level LMS public key), then the bottom LMS signature: parses as deep as the parser allows
    Chain { n: u32, adjust_pk: bool },
    /// a structurally well-formed signature for an arbitrary per-level (w, h) list — lengths consistent with
    /// the claimed type codes, including heights no real tree can be built for — filled with PRNG bytes;
    /// adjust_pk: also present a public key whose level count and type codes match it
    Synthetic { params: Vec<(u32, u32)>, cseed: u64, adjust_pk: bool },
    /// chain extension: this envelope's signature was made over the LMS public key of another key (op
    /// `ChildKeyAsNextMessage`); append that key as a further level — the signed bytes become a signed public
    /// key, followed by everything of `child_env`'s signature — present the child's message and raise the level
    /// count of the public key accordingly
    Graft { child_env: usize },
}

#[derive(Serialize, Deserialize, Clone, Debug, PartialEq, Eq, Hash)]
pub enum AuxFault {
    BitFlip { pos: Frac, bit: u8 },
    BitFlipAt { byte: usize, bit: u8 },
    TruncateTo { len: usize },
    Truncate { len: Frac },
    Pad { #[serde(with = "hexs")] bytes: Vec<u8> },
    Zero,
    Garbage { cseed: u64 },
    /// keep the 4-byte level word, zero everything else
    MarkerOnly,
    LevelWord { val: u32 },
    LevelWordByte { idx: u8, val: u8 },
    /// replace by slot `slot` of key `key` (stale / foreign buffer)
    CopyFrom { key: usize, slot: usize },
    /// valid nodes, MAC corrupted
    MacBit { bit: u16 },
    /// one cached node replaced by zeros / garbage and the MAC left alone
    NodeZero { pos: Frac },
    /// cut the buffer off right where its MAC would start (drop the last n bytes)
    DropMac,
}

#[derive(Serialize, Deserialize, Clone, Debug, PartialEq, Eq, Hash)]
pub enum PrvFault {
    SetLen { len: usize, fill: u8 },
    ParamByte { idx: u8, val: u8 },
    Counter { val: u64 },
    BitFlip { pos: Frac, bit: u8 },
    /// counter 0, parameters 0xff, seed zero
    Wiped,
    /// all 0xff: what hash-sigs leaves behind
    ForeignExhausted,
    Replace { #[serde(with = "hexs")] bytes: Vec<u8> },
}

#[derive(Serialize, Deserialize, Clone, Copy, Debug, PartialEq, Eq, Hash)]
pub enum Context {
    Again,
    OtherApi,
    FreshProcess,
    /// in a newly spawned OS thread (per-thread state of the library starts from scratch there)
    FreshThread,
    WithAux,
    NoAux,
}

#[derive(Serialize, Deserialize, Clone, Debug, PartialEq)]
pub enum Op {
    /// generate key `key` with the library and store prv/pub durably; aux: (slot, length, fill)
    Keygen { key: usize, aux: Option<(usize, usize, AuxFill)> },
    /// keygen with an arbitrary parameter-list length (C11): list = first `len` entries of the
    /// key's params repeated cyclically
    KeygenLen { key: usize, len: usize },
    /// overwrite the durable private key with the blob for this counter (a reachable persisted state)
    Inject { key: usize, counter: u64 },
    /// store the key file a build with wider limits would have written for this key's parameter list
    /// (same blob format), then offer it to the lifetime query, hbs_lms::sign, SigningKey::from_bytes and
    /// try_sign: a list beyond this build's limits must be refused, not used as some other key (C14)
    ForeignKey { key: usize, counter: u64 },
    /// the next `Sign` of any process signs, instead of generated content, the LMS public key of key `child`
    /// (its HSS public key without the level count), with its LMS / LM-OTS type code overwritten if given
    ChildKeyAsNextMessage { child: usize, lms_type: Option<u32>, ots_type: Option<u32> },
    Load { proc: usize, how: LoadAs },
    Sign { proc: usize, msg: Msg, api: Api, cb: Cb, aux: Option<usize> },
    Lifetime { proc: usize },
    Kill { proc: usize },
    NewAux { key: usize, slot: usize, len: usize, fill: AuxFill },
    AuxFault { key: usize, slot: usize, fault: AuxFault },
    PrvFault { key: usize, fault: PrvFault },
    /// put the `n`-th released signature of `key` on the wire as a new envelope
    Send { key: usize, release: usize },
    Deliver { env: usize, fault: WireFault, entry: VerifyEntry },
    /// hand the durable key file to the hash-sigs node, let it sign `msgs` messages after
    /// advancing by `advance`, and hand it back
    Handover { key: usize, advance: u64, msgs: u8 },
    /// repeat the observed op `op_ref` in another context and compare (C09)
    Recheck { op_ref: usize, ctx: Context },
    /// counter arithmetic through the hook, no trees: `steps` increments from `start` with a
    /// persist/reload (8 bytes BE) after each, compared with the u128 model at every step
    Arith { heights: Vec<u8>, start: u64, steps: u8 },
    /// let hash-sigs generate the same key from the same seed; compare files byte for byte and let it
    /// sign from the library-written aux file
    HsKeygen { key: usize },
}

impl Op {
    pub fn kind(&self) -> &'static str {
        match self {
            Op::Keygen { .. } => "Keygen",
            Op::KeygenLen { .. } => "KeygenLen",
            Op::Inject { .. } => "Inject",
            Op::ForeignKey { .. } => "ForeignKey",
            Op::ChildKeyAsNextMessage { .. } => "ChildKeyAsNextMessage",
            Op::Load { .. } => "Load",
            Op::Sign { .. } => "Sign",
            Op::Lifetime { .. } => "Lifetime",
            Op::Kill { .. } => "Kill",
            Op::NewAux { .. } => "NewAux",
            Op::AuxFault { .. } => "AuxFault",
            Op::PrvFault { .. } => "PrvFault",
            Op::Send { .. } => "Send",
            Op::Deliver { .. } => "Deliver",
            Op::Handover { .. } => "Handover",
            Op::Recheck { .. } => "Recheck",
            Op::Arith { .. } => "Arith",
            Op::HsKeygen { .. } => "HsKeygen",
        }
    }
}

#[derive(Serialize, Deserialize, Clone, Debug, PartialEq)]
pub struct Plan {
    pub profile: String,
    pub verif_seed: u64,
    pub run: u64,
    pub keys: Vec<KeyCfg>,
    /// key index each simulated signer process is bound to
    pub procs: Vec<usize>,
    pub ops: Vec<Op>,
    /// generator's remark (which sub-scenario)
    pub note: String,
}
