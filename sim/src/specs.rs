//! Which profiles decide which property, with run counts per tier.

use crate::check::{CheckSpec, Part};
use crate::gen::{self, GenCtx};

fn p(profile: &'static str, q: u64, t: u64) -> Part {
    Part { profile, runs_quick: q, runs_thorough: t }
}

pub fn spec(prop: &str, quick: bool) -> Option<CheckSpec> {
    let lifecycle_rule = "plans drawn by a seeded PRNG (hash x per-level (w,h) x levels 1..8 x start counter x fault mix x API mix x aux); a run is non-trivial if at least one fault kind fired (callback reject, crash before/after durable, crash after return, restart) and an oracle was evaluated afterwards; distinct = distinct hash of (key shapes, op-kind sequence incl. API/callback kinds, set of fault kinds that fired)";
    Some(match prop {
        "C01" => CheckSpec { property: "C01", level: "exploration", parts: vec![p("lifecycle", 1500, 6000), p("lifecycle-full", 300, 1500), p("wire", 100, 600), p("aux", 300, 2000), p("radix-e2e", 6, 30), p("corners", gen::CORNERS, gen::CORNERS), p("tall", crate::gen2::tall_space(true), crate::gen2::tall_space(false))], exhaustive_note: None, rule: lifecycle_rule },
        "C03" => CheckSpec { property: "C03", level: "exploration", parts: vec![p("lifecycle", 1500, 6000), p("lifecycle-full", 500, 2000), p("radix-e2e", 6, 30), p("corners", gen::CORNERS, gen::CORNERS)], exhaustive_note: None, rule: lifecycle_rule },
        "C05" => CheckSpec { property: "C05", level: "exploration", parts: vec![p("lifecycle-full", 600, 2500), p("lifecycle", 600, 3000), p("radix-arith", 20, 200), p("corners", gen::CORNERS, gen::CORNERS)], exhaustive_note: None, rule: lifecycle_rule },
        "C07" => CheckSpec { property: "C07", level: "exploration", parts: vec![p("lifecycle", 1500, 6000), p("lifecycle-full", 300, 1500), p("handover", 40, 400), p("radix-e2e", 6, 30), p("corners", gen::CORNERS, gen::CORNERS), p("tall", crate::gen2::tall_space(true), crate::gen2::tall_space(false))], exhaustive_note: None, rule: lifecycle_rule },
        "C04" => CheckSpec {
            property: "C04",
            level: "fault_enumeration",
            parts: vec![p("callback", gen::callback_space_size(), gen::callback_space_size()), p("lifecycle", 300, 6000), p("corners", gen::CORNERS, gen::CORNERS)],
            exhaustive_note: Some("every counter of the complete lifetime of shapes {[2],[5],[2,2],[2,2,2]} x w in {1,2,4,8} x 2 hashes x callback {accept, reject, crash-before, crash-after, reject-once} x aux {none, fresh, valid, corrupt} x {byte API, object API}, followed by every truncated length / over-long / bad parameter byte / out-of-range counter / wiped / all-0xff key"),
            rule: "the crossing (shape x w x hash x callback behaviour x aux kind x API) is enumerated by run index; each run visits every counter of the key's lifetime and every failing precondition; non-trivial = a fault fired and the callback automaton was evaluated afterwards; distinct = distinct (configuration, op kinds, fault set) hash; the lifecycle part adds seeded swarm shapes",
        },
        "C02" => CheckSpec { property: "C02", level: "exploration", parts: vec![p("wire", 3500, 25000), p("handover", 40, 400), p("wire-total", 48, crate::gen2::wire_total_space(false))], exhaustive_note: None, rule: "2-4 keys per run (two sharing the hash, two sharing n), 1-3 releases each at random/boundary counters; every envelope delivered intact through each entry point and then with seeded transport faults (bit flips raw and per field, field overwrite, truncate/extend, cross-key/level/counter/hash splices, message/key/hash swaps, level cut/grow, raw bytes, model-made RFC-exact signatures), plus the enumerated wire-total bases (every prefix, every header value, one flipped bit in the first and last byte of every randomizer / chain value / path node / public-key byte, chains of 0..10 well-formed elements); non-trivial = a fault changed the delivered triple and the verdict oracle ran; distinct = (shapes, fault-kind sequence) hash" },
        "C06" => CheckSpec {
            property: "C06",
            level: "fault_enumeration",
            parts: vec![p("wire-total", crate::gen2::wire_total_space(quick), crate::gen2::wire_total_space(false)), p("wire", 300, 4000)],
            exhaustive_note: Some("for each base triple (6 hashes x w x L in {1,2,3,8} x height pattern): every prefix length of the signature and of the public key, extensions by 1..64 bytes, the u32 boundary set on every header/type/leaf field of every level, every value of each byte of those fields for L <= 3, every value of each byte of the public-key header fields, PRNG strings of every length 0..200"),
            rule: "enumerated short/extended deliveries and field values per base triple (run index = base triple), plus seeded structure-aware and raw mutations; every case through hbs_lms::verify, VerifyingKey+Signature::from_bytes, VerifyingKey+VerifierSignature::from_ref; non-trivial = the fault changed bytes and the outcome was classified; distinct = (shape, fault-kind sequence) hash",
        },
        "C08" => CheckSpec { property: "C08", level: "exploration", parts: vec![p("keygen", 6000, 40000), p("tall", crate::gen2::tall_space(true), crate::gen2::tall_space(false))], exhaustive_note: None, rule: "seeds (zero, all-ones, single-bit, PRNG) x parameter lists (1..8 levels, all w, heights up to 10 on top, up to 25 below) x 8 hash instantiations x aux {none, assorted sizes}; every fourth run is SHA-256/32 with heights >= 5 and is compared with the files the hash-sigs binary writes for the same seed; non-trivial = a build-limit or aux 'fault' fired or the binary was consulted (counted via fault_fired/probes); distinct = (shape, op kinds) hash" },
        "C09" => CheckSpec { property: "C09", level: "exploration", parts: vec![p("purity", 600, 6000), p("aux", 400, 3000), p("purity-proc", 48, 256), p("aux-proc", 64, 400)], exhaustive_note: None, rule: "3-6 keys per run with interleaved keygen/sign/load/lifetime ops; observed calls re-executed immediately, at the end of the run, through the other API, with aux, and (every 8th run) in a fresh child process; byte equality; plus purity-proc: long histories (about 1.5k / 7k library calls) each executed in its own fresh child process with every observed call repeated later in that process, so that any dependence on process-wide state replays exactly; plus the aux profile, in which every aux-assisted call is compared with the same call without aux (outputs must not depend on the cache file's content); non-trivial = at least one re-execution context or aux fault fired; distinct = (shapes, op kinds) hash" },
        "C10" => CheckSpec {
            property: "C10",
            level: "fault_enumeration",
            parts: vec![p("aux-enum", crate::gen2::aux_enum_space(quick), crate::gen2::aux_enum_space(false)), p("aux", 2500, 15000), p("aux-proc", 64, 400), p("tall", crate::gen2::tall_space(true), crate::gen2::tall_space(false))],
            exhaustive_note: Some("on a buffer freshly filled by keygen: every single-bit flip, every truncation length 0..len, padding by 1..64 bytes, every value of each level-word byte — each followed by sign (and every fourth by keygen) with the faulted buffer, compared with the same call without aux"),
            rule: "enumerated storage faults on the aux cache file (chunks by run index) plus seeded sequences of keygen/sign/aux-fault ops over keys with equal shape and different seeds; non-trivial = the fault changed the buffer and the transparency/layout/meter oracles ran; distinct = (shape, op kinds, fault set) hash",
        },
        "C11" => CheckSpec {
            property: "C11",
            level: "fault_enumeration",
            parts: vec![p("storage", crate::gen2::storage_space(), crate::gen2::storage_space()), p("callback", 64, 256), p("aux-enum", crate::gen2::aux_enum_space(quick), crate::gen2::aux_enum_space(false))],
            exhaustive_note: Some("per hash: parameter-list lengths 0..10; key-file lengths 0..64 (two fills); every value of each of the 8 parameter bytes except those that decode to trees of height >= 15 (height 10 in the thorough tier only); counters {0, last-1, last, last+1, 2^32, 2^63, 2^64-1}; wiped, all-0xff and wrong-hash key files; aux lengths 0..40 zero/garbage/dirty for keygen and sign; every value of each level-word byte; every truncation length, single-bit flip and padding 1..64 of a keygen-filled aux buffer (aux-enum part)"),
            rule: "enumerated storage corruption (run index = hash x section); each corrupted input goes to lifetime query, hbs_lms::sign, SigningKey::from_bytes + try_sign; oracle: Err, or Ok and model-correct, never a panic, callback silent on every non-Ok outcome; non-trivial = the fault changed the stored bytes; distinct = (hash, section, op kinds) hash",
        },
        "C13" => CheckSpec {
            property: "C13",
            level: "exploration",
            parts: vec![p("radix-arith", crate::gen2::radix_arith_runs(quick), crate::gen2::radix_arith_runs(false)), p("radix-e2e", 6, 30), p("handover", 120, 1500)],
            exhaustive_note: None,
            rule: "(a) height tuples of length 1..8 over {5,10,15,20,25} (and the 4-leaf height) through the hook accessors: short histories of increment + persist/reload from boundary and random counters compared with a u128 model at every step (thorough: all 488 280 tuples); (b) leaf-index fields of real signatures of tall shapes at boundary counters; (c) library and hash-sigs binary alternating on one key file with a common release ledger; non-trivial = a boundary/hand-over fault fired; distinct = (shape, op kinds) hash",
        },
        "C14" => CheckSpec { property: "C14", level: "exploration", parts: vec![p("lifecycle", 150, 800), p("lifecycle-full", 60, 300), p("keygen", 200, 1000), p("aux", 60, 300), p("limits", 102, 102), p("storage", 6, 6), p("corners", gen::CORNERS, gen::CORNERS)], exhaustive_note: None, rule: "the engine rebuilt under each HBS_LMS_* environment; in-limit lists are held to the build-independent reference model (lifecycle, keygen, aux profiles), out-of-limit lists (one level too many, one height step above the largest configured, one w step below the smallest configured, at each level) must be refused; non-trivial = a fault or limit probe fired; distinct = (build, shape, op kinds) hash" },
        _ => return None,
    })
}

/// Prove determinism: n plans of each profile executed twice (second time in reverse order) and the
/// event-log hashes compared.
pub fn determinism(seed: u64, n: u64) -> i32 {
    let ctx = GenCtx { verif_seed: seed, quick: true };
    let profiles = ["corners", "lifecycle", "lifecycle-full", "callback", "wire", "aux", "keygen", "purity", "handover", "radix-arith", "storage", "aux-enum", "wire-total", "radix-e2e", "tall"];
    let mut bad = 0;
    let mut total = 0;
    for prof in profiles {
        let cap = match prof {
            "wire-total" | "storage" | "aux-enum" | "radix-e2e" => n.min(3),
            "tall" => n.min(1),
            "radix-arith" => n.min(4),
            _ => n,
        };
        let mut first = vec![];
        for i in 0..cap {
            if let Some(p) = gen::generate(&ctx, prof, i) {
                first.push((i, crate::exec::run_plan(&p, false).event_hash));
            }
        }
        for (i, h) in first.iter().rev() {
            let p = gen::generate(&ctx, prof, *i).unwrap();
            let h2 = crate::exec::run_plan(&p, false).event_hash;
            total += 1;
            if h2 != *h {
                println!("NONDETERMINISM profile={} run={} {:016x} != {:016x}", prof, i, h, h2);
                bad += 1;
            }
        }
        println!("{}: {} plans, fold {:016x}", prof, first.len(), first.iter().fold(0u64, |a, (_, h)| crate::rng::fnv1a(format!("{:x}{:x}", a, h).as_bytes())));
    }
    println!("determinism: {} plans run twice, {} divergent", total, bad);
    if bad > 0 {
        2
    } else {
        0
    }
}
