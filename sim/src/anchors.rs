//! Anchoring of the reference model (DESIGN.md §2.6).  Run at the start of every check; a failure is a
//! harness error (exit 2), never a violation.

use crate::hashsigs::{self, Node};
use crate::model::verify::{hss_verify, VerifyCfg};
use crate::model::*;
use crate::rng::Rng;

#[derive(Default, Debug, Clone)]
pub struct AnchorReport {
    pub rfc_vectors: usize,
    pub rfc_bitflips_rejected: usize,
    pub hashsigs_available: bool,
    pub hashsigs_keys: usize,
    pub hashsigs_signatures: usize,
    pub self_consistency: usize,
}

fn parse_static(src: &str, name: &str) -> Option<Vec<u8>> {
    let start = src.find(&format!("static {}:", name))?;
    let rest = &src[start..];
    let open = rest.find("= &[")? + 4;
    let close = rest[open..].find("];")? + open;
    let mut out = vec![];
    for tok in rest[open..close].split(',') {
        let t = tok.trim();
        if t.is_empty() {
            continue;
        }
        let t = t.trim_start_matches("0x");
        out.push(u8::from_str_radix(t, 16).ok()?);
    }
    Some(out)
}

const SHA256_32: HashSpec = HashSpec { fam: Fam::Sha256, n: 32 };

pub fn run(quick: bool) -> Result<AnchorReport, String> {
    let mut rep = AnchorReport::default();
    let cfg = VerifyCfg { h2_known: false, ls: LsPolicy::Rfc };

    // 1. RFC 8554 Appendix F vectors, read from the repository's own test sources
    for f in ["tests/rfc_testcase1.rs", "tests/rfc_testcase2.rs"] {
        let path = hashsigs::repo_dir().join(f);
        let src = std::fs::read_to_string(&path).map_err(|e| format!("cannot read {}: {}", path.display(), e))?;
        let pk = parse_static(&src, "PUBLIC_KEY").ok_or("no PUBLIC_KEY")?;
        let msg = parse_static(&src, "MESSAGE").ok_or("no MESSAGE")?;
        let sig = parse_static(&src, "SIGNATURE").ok_or("no SIGNATURE")?;
        hss_verify(SHA256_32, &msg, &sig, &pk, &cfg).map_err(|e| format!("model rejects RFC vector {}: {:?}", f, e))?;
        rep.rfc_vectors += 1;
        let mut r = Rng::new(0x5eed_0001);
        for _ in 0..64 {
            let mut s2 = sig.clone();
            let pos = r.below(s2.len() as u64) as usize;
            s2[pos] ^= 1 << r.below(8);
            if hss_verify(SHA256_32, &msg, &s2, &pk, &cfg).is_ok() {
                return Err(format!("model accepts RFC vector {} with a flipped bit at byte {}", f, pos));
            }
            rep.rfc_bitflips_rejected += 1;
        }
        let mut m2 = msg.clone();
        m2[0] ^= 1;
        if hss_verify(SHA256_32, &m2, &sig, &pk, &cfg).is_ok() {
            return Err("model accepts RFC vector with altered message".into());
        }
    }

    // 2. the real hash-sigs binary
    rep.hashsigs_available = Node::available();
    if rep.hashsigs_available {
        let node = Node::new().ok_or("cannot create scratch directory for hash-sigs")?;
        let shapes: Vec<Params> = if quick {
            vec![vec![(8, 5)], vec![(4, 5), (8, 5)], vec![(2, 5), (4, 5), (8, 5)]]
        } else {
            vec![
                vec![(8, 5)],
                vec![(4, 5)],
                vec![(4, 5), (8, 5)],
                vec![(8, 5), (2, 5)],
                vec![(2, 5), (4, 5), (8, 5)],
                vec![(4, 10), (8, 5)],
                vec![(8, 5), (8, 5), (8, 5), (4, 5)],
                vec![(1, 5), (8, 5)],
            ]
        };
        let mut r = Rng::new(0x5eed_0002);
        let per_shape = if quick { 2 } else { 6 };
        'shapes: for params in &shapes {
            for _ in 0..per_shape {
                let seed = r.bytes(32);
                let (hprv, hpub, haux) = match node.genkey(params, &seed, 2000) {
                    Some(x) => x,
                    None if node.take_timeout() => break 'shapes, // overloaded machine: fewer samples, not a failure
                    None => return Err("hash-sigs genkey failed".into()),
                };
                let key = HssKey { hs: SHA256_32, params: params.clone(), seed: seed.clone() };
                if hprv != prv_blob(params, 0, &seed) {
                    return Err(format!("model private key differs from hash-sigs for {:?}", params));
                }
                if hpub != key.public_key() {
                    return Err(format!("model public key differs from hash-sigs for {:?}", params));
                }
                match check_aux(SHA256_32, params, &seed, &haux) {
                    AuxCheck::Valid { .. } => {}
                    other => return Err(format!("model does not reproduce hash-sigs aux file for {:?}: {:?}", params, other)),
                }
                rep.hashsigs_keys += 1;
                // jump somewhere, then sign twice
                let total: u64 = 1u64 << params.iter().map(|p| p.1).sum::<u32>();
                let start = match r.below(3) {
                    0 => 0,
                    1 => (1u64 << params.last().unwrap().1) - 1,
                    _ => r.below(total - 2),
                };
                let mut prv = prv_blob(params, start, &seed);
                for k in 0..2u64 {
                    let mlen = r.below(200) as usize;
                    let msg = r.bytes(mlen);
                    let (hsig, hnew) = match node.sign(&prv, Some(&haux), &msg) {
                        Some(x) => x,
                        None if node.take_timeout() => break 'shapes,
                        None => return Err("hash-sigs sign failed".into()),
                    };
                    let c = start + k;
                    let full = key.sign(c, &msg, LsPolicy::Rfc, CConv::HashSigs).ok_or("model refuses in-range counter")?;
                    if full != hsig {
                        return Err(format!("model signature (hash-sigs C convention) differs from hash-sigs for {:?} at counter {}", params, c));
                    }
                    // library convention: everything except upper-level C and y must coincide
                    let lib = key.sign(c, &msg, LsPolicy::Rfc, CConv::Library).unwrap();
                    let pa = split_signature(SHA256_32, &lib, false)?;
                    let pb = split_signature(SHA256_32, &hsig, false)?;
                    for (lvl, (a, b)) in pa.iter().zip(pb.iter()).enumerate() {
                        let last = lvl + 1 == pa.len();
                        if a.q != b.q || a.ots_code != b.ots_code || a.lms_code != b.lms_code || a.path != b.path || a.child_pub != b.child_pub {
                            return Err("library-convention model signature differs from hash-sigs outside C/y".into());
                        }
                        if last && (a.c != b.c || a.y != b.y) {
                            return Err("bottom-level signature differs from hash-sigs".into());
                        }
                    }
                    let exhausted = c + 1 == total;
                    if exhausted {
                        // hash-sigs marks an exhausted key file with all 0xff (the crate: counter 0,
                        // parameters 0xff, seed zero) — both are "no longer a key"
                        if !hnew.iter().all(|&b| b == 0xff) {
                            return Err("hash-sigs did not wipe the exhausted key".into());
                        }
                        break;
                    }
                    if hnew != successor(params, c, &seed) {
                        return Err(format!("model successor differs from hash-sigs at counter {}", c));
                    }
                    if node.verify(&hpub, &msg, &lib) != Some(true) {
                        return Err("hash-sigs rejects a model-made signature".into());
                    }
                    hss_verify(SHA256_32, &msg, &hsig, &hpub, &cfg).map_err(|e| format!("model verifier rejects hash-sigs signature: {:?}", e))?;
                    prv = hnew;
                    rep.hashsigs_signatures += 1;
                }
            }
        }
    }

    // 3. self-consistency for every hash, incl. the hook's 4-leaf tree
    let cfg2 = VerifyCfg { h2_known: true, ls: LsPolicy::Rfc };
    let mut r = Rng::new(0x5eed_0003);
    for fam in [Fam::Sha256, Fam::Shake256] {
        for n in [16usize, 24, 32] {
            let hs = HashSpec { fam, n };
            for params in [vec![(8u32, 2u32)], vec![(4, 2), (2, 2)], vec![(1, 2), (8, 2), (4, 2)]] {
                let seed = r.bytes(n);
                let key = HssKey { hs, params: params.clone(), seed };
                let pk = key.public_key();
                let total = 1u64 << params.iter().map(|p| p.1).sum::<u32>();
                for c in [0, total / 2, total - 1] {
                    let msg = r.bytes(33);
                    let sig = key.sign(c, &msg, LsPolicy::Rfc, CConv::Library).unwrap();
                    if sig.len() != sig_len(n, &params) {
                        return Err("model signature length differs from the RFC formula".into());
                    }
                    hss_verify(hs, &msg, &sig, &pk, &cfg2).map_err(|e| format!("model self-consistency: {:?}", e))?;
                    let mut s2 = sig.clone();
                    let pos = r.below(s2.len() as u64) as usize;
                    s2[pos] ^= 0x10;
                    if hss_verify(hs, &msg, &s2, &pk, &cfg2).is_ok() {
                        return Err("model accepts its own corrupted signature".into());
                    }
                    rep.self_consistency += 1;
                }
                if key.sign(total, b"x", LsPolicy::Rfc, CConv::Library).is_some() {
                    return Err("model signs with an out-of-range counter".into());
                }
            }
        }
    }
    clear_tree_cache();
    Ok(rep)
}
