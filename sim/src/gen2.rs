//! Generators for the wire, storage, aux, keygen, purity, radix, handover and limits profiles.

use crate::gen::*;
use crate::lib_iface::{HashId, VerifyEntry, ALL_ENTRIES, ALL_HASHES, H2_KNOWN, PLAIN_HASHES};
use crate::model;
use crate::plan::*;
use crate::rng::Rng;

fn cheap_h() -> u32 {
    if H2_KNOWN {
        2
    } else {
        5
    }
}

fn rand_field(rng: &mut Rng, levels: usize) -> Field {
    let l = rng.below(levels as u64) as u8;
    match rng.below(11) {
        0 => Field::Nspk,
        1 => Field::Q(l),
        2 => Field::OtsType(l),
        3 => Field::C(l),
        4 => Field::Y(l),
        5 => Field::LmsType(l),
        6 => Field::Path(l),
        7 => Field::ChildLmsType(l),
        8 => Field::ChildOtsType(l),
        9 => Field::ChildI(l),
        _ => Field::ChildRoot(l),
    }
}
fn rand_pk_field(rng: &mut Rng) -> PkField {
    *rng.pick(&[PkField::Levels, PkField::LmsType, PkField::OtsType, PkField::I, PkField::Root])
}
pub const U32_BOUNDARY: [u32; 14] = [0, 1, 2, 3, 4, 5, 6, 7, 8, 9, 31, 32, 1 << 16, u32::MAX];

pub fn wire_fault(rng: &mut Rng, n_envs: usize, levels: usize) -> WireFault {
    let other = rng.below(n_envs as u64) as usize;
    match rng.below(30) {
        0 => WireFault::SigBit { pos: rng.next_u64() as u32, bit: rng.below(8) as u8 },
        1 => WireFault::SigByte { pos: rng.next_u64() as u32, val: rng.below(256) as u8 },
        2..=5 => WireFault::FieldBit { field: rand_field(rng, levels), pos: rng.next_u64() as u32, bit: rng.below(8) as u8 },
        6 | 7 => {
            let lv = rng.below(levels as u64) as u8;
            let f = *rng.pick(&[Field::Nspk, Field::Q(lv), Field::OtsType(lv), Field::LmsType(lv), Field::ChildLmsType(0), Field::ChildOtsType(0)]);
            let val = if rng.chance(1, 2) { *rng.pick(&U32_BOUNDARY) } else { rng.below(40) as u32 };
            WireFault::FieldU32 { field: f, val }
        }
        8 => WireFault::FieldByte { field: rand_field(rng, levels), idx: rng.below(4) as u8, val: rng.below(256) as u8 },
        9 => WireFault::SigTruncate { len: rng.next_u64() as u32 },
        10 => {
            let k = rng.range(1, 64) as usize;
            WireFault::SigExtend { bytes: if rng.chance(1, 2) { vec![0u8; k] } else { rng.bytes(k) } }
        }
        11 => WireFault::PkBit { pos: rng.next_u64() as u32, bit: rng.below(8) as u8 },
        12 => WireFault::PkFieldU32 { field: *rng.pick(&[PkField::Levels, PkField::LmsType, PkField::OtsType]), val: if rng.chance(1, 2) { *rng.pick(&U32_BOUNDARY) } else { rng.below(12) as u32 } },
        13 => WireFault::PkFieldByte { field: rand_pk_field(rng), idx: rng.below(4) as u8, val: rng.below(256) as u8 },
        14 => WireFault::PkTruncateTo { len: rng.below(61) as usize },
        15 => {
            let k = rng.range(1, 64) as usize;
            WireFault::PkExtend { bytes: if rng.chance(1, 2) { vec![0u8; k] } else { rng.bytes(k) } }
        }
        16 => WireFault::MsgBit { pos: rng.next_u64() as u32, bit: rng.below(8) as u8 },
        17 => WireFault::MsgTruncate { len: rng.next_u64() as u32 },
        18 => {
            let k = rng.range(1, 8) as usize;
            WireFault::MsgExtend { bytes: rng.bytes(k) }
        }
        19 | 20 | 21 => {
            // same field of another envelope, possibly another level there
            let f = rand_field(rng, levels);
            let of = if rng.chance(1, 2) { f } else { retarget(f, rng.below(levels.max(1) as u64) as u8) };
            WireFault::Splice { other, field: f, other_field: of }
        }
        22 => WireFault::SpliceElement { other, lvl: rng.below(levels as u64) as u8, other_lvl: rng.below(levels as u64) as u8 },
        23 => WireFault::SwapMessage { other },
        24 => WireFault::SwapKey { other },
        25 => WireFault::SwapHash { hash: *rng.pick(&PLAIN_HASHES) },
        26 => WireFault::LevelCut { adjust_pk: rng.chance(1, 2) },
        27 => WireFault::LevelGrow { adjust_pk: rng.chance(1, 2), other },
        28 => {
            if rng.chance(1, 2) {
                WireFault::RawSig { delta: rng.range(0, 128) as i32 - 64, cseed: rng.next_u64() }
            } else {
                WireFault::RawPk { delta: rng.range(0, 16) as i32 - 8, cseed: rng.next_u64() }
            }
        }
        _ => {
            if rng.chance(1, 3) {
                let lv = rng.range(1, 9) as usize;
                let params: Vec<(u32, u32)> = (0..lv).map(|_| (*rng.pick(&[1u32, 2, 4, 8]), *rng.pick(&[5u32, 10, 15, 20, 25]))).collect();
                WireFault::Synthetic { params, cseed: rng.next_u64(), adjust_pk: rng.chance(1, 2) }
            } else {
                rng.pick(&[WireFault::ModelMade, WireFault::Dup, WireFault::Drop, WireFault::Chain { n: 8, adjust_pk: false }, WireFault::Chain { n: 7, adjust_pk: true }, WireFault::Chain { n: 2, adjust_pk: true }]).clone()
            }
        }
    }
}
fn retarget(f: Field, l: u8) -> Field {
    match f {
        Field::Nspk => Field::Nspk,
        Field::Q(_) => Field::Q(l),
        Field::OtsType(_) => Field::OtsType(l),
        Field::C(_) => Field::C(l),
        Field::Y(_) => Field::Y(l),
        Field::LmsType(_) => Field::LmsType(l),
        Field::Path(_) => Field::Path(l),
        Field::ChildLmsType(_) => Field::ChildLmsType(l),
        Field::ChildOtsType(_) => Field::ChildOtsType(l),
        Field::ChildI(_) => Field::ChildI(l),
        Field::ChildRoot(_) => Field::ChildRoot(l),
    }
}

/// wire: several keys (two sharing the hash, two sharing n), a few releases each, every envelope
/// delivered intact once per entry point and then many times with faults.
pub fn wire(ctx: &GenCtx, rng: &mut Rng, _run: u64) -> Plan {
    let mut plan = empty_plan();
    let h0 = pick_hash(rng);
    let same_n: Vec<HashId> = ALL_HASHES.iter().cloned().filter(|h| h.n() == h0.n() && *h != h0).collect();
    let mut hashes = vec![h0, h0, *rng.pick(&same_n)];
    if rng.chance(1, 2) {
        hashes.push(pick_hash(rng));
    }
    let budget = if ctx.quick { 150_000 } else { 600_000 };
    let mut max_levels = 1;
    for (ki, &hash) in hashes.iter().enumerate() {
        // the second key shares the first one's shape half of the time (cross-key splices then fit)
        let params = if ki == 1 && rng.chance(1, 2) { plan.keys[0].params.clone() } else { shape(rng, hash, 8, budget) };
        max_levels = max_levels.max(params.len());
        plan.keys.push(KeyCfg { hash, params, seed: rng.bytes(hash.n()) });
        plan.procs.push(ki);
        plan.ops.push(Op::Keygen { key: ki, aux: None });
    }
    let mut n_envs = 0;
    for ki in 0..plan.keys.len() {
        let hts: Vec<u32> = plan.keys[ki].params.iter().map(|p| p.1).collect();
        let leaves = 1u64 << hts.iter().sum::<u32>().min(62);
        let rel = rng.range(1, 3);
        for r in 0..rel {
            if rng.chance(2, 3) {
                plan.ops.push(Op::Inject { key: ki, counter: if rng.chance(1, 2) { rng.below(leaves) } else { *rng.pick(&boundary_counters(&hts)) } });
            }
            plan.ops.push(Op::Sign { proc: ki, msg: msg(rng, plan.keys[ki].hash.n()), api: Api::Fn, cb: Cb::Accept, aux: None });
            plan.ops.push(Op::Send { key: ki, release: r as usize });
            n_envs += 1;
        }
    }
    for e in 0..n_envs {
        for entry in ALL_ENTRIES {
            plan.ops.push(Op::Deliver { env: e, fault: WireFault::None, entry });
        }
    }
    // chain extension with the signer's cooperation: key a signs, as a message, the LMS public key of key b
    // (same hash) — as it is, and with a type code overwritten before it is signed — and the chain is extended by
    // that element and one of b's signatures.  The unaltered extension is a valid RFC 8554 signature under a's
    // public key with the level count raised; the altered ones are not.  Mutations of finished signatures cannot
    // reach this: altering a signed child key afterwards breaks the parent's signature over it.
    {
        let pairs: Vec<(usize, usize)> = (0..plan.keys.len()).flat_map(|a| (0..plan.keys.len()).map(move |b| (a, b))).filter(|&(a, b)| a != b && plan.keys[a].hash.unmetered() == plan.keys[b].hash.unmetered() && plan.keys[a].hash == plan.keys[b].hash && plan.keys[a].params.len() + plan.keys[b].params.len() <= 8).collect();
        if !pairs.is_empty() {
            let (a, b) = *rng.pick(&pairs);
            // envelope indices of b's releases: envelopes were sent key by key, release by release
            let mut first_env_of = vec![0usize; plan.keys.len()];
            let mut rels = vec![0usize; plan.keys.len()];
            {
                let mut env = 0usize;
                let mut cur_key = usize::MAX;
                for op in &plan.ops {
                    if let Op::Send { key, .. } = op {
                        if *key != cur_key {
                            first_env_of[*key] = env;
                            cur_key = *key;
                        }
                        rels[*key] += 1;
                        env += 1;
                    }
                }
            }
            let (bw, bh) = plan.keys[b].params[0];
            let other_ots = *rng.pick(&[1u32, 2, 3, 4].iter().cloned().filter(|c| Some(*c) != model::ots_code(bw)).collect::<Vec<_>>());
            let other_lms = *rng.pick(&[5u32, 6, 7, 8, 9].iter().cloned().filter(|c| Some(*c) != model::lms_code(bh)).collect::<Vec<_>>());
            let variants: [(Option<u32>, Option<u32>); 4] = [(None, None), (Some(other_lms), None), (None, Some(other_ots)), (Some(rng.below(12) as u32), Some(rng.below(6) as u32))];
            for (vi, (lms_type, ots_type)) in variants.into_iter().enumerate() {
                plan.ops.push(Op::Inject { key: a, counter: vi as u64 });
                plan.ops.push(Op::ChildKeyAsNextMessage { child: b, lms_type, ots_type });
                plan.ops.push(Op::Sign { proc: a, msg: Msg { len: 0, cseed: 0 }, api: Api::Fn, cb: Cb::Accept, aux: None });
                plan.ops.push(Op::Send { key: a, release: usize::MAX });
                let env = n_envs;
                n_envs += 1;
                let child_env = first_env_of[b] + rng.below(rels[b].max(1) as u64) as usize;
                for entry in ALL_ENTRIES {
                    plan.ops.push(Op::Deliver { env, fault: WireFault::Graft { child_env }, entry });
                }
            }
        }
    }
    let faulted = if ctx.quick { 60 } else { 200 };
    for _ in 0..faulted {
        let env = rng.below(n_envs as u64) as usize;
        let fault = wire_fault(rng, n_envs, max_levels);
        plan.ops.push(Op::Deliver { env, fault, entry: *rng.pick(&ALL_ENTRIES) });
    }
    plan.note = format!("{} keys, {} envelopes, {} faulted deliveries", plan.keys.len(), n_envs, faulted);
    plan
}

/// wire-total: enumerated short deliveries, extensions and field values on a base population indexed
/// by the run number.
pub fn wire_total(ctx: &GenCtx, rng: &mut Rng, run: u64) -> Option<Plan> {
    let ws: Vec<u32> = if ctx.quick { vec![1, 8] } else { vec![1, 2, 4, 8] };
    let level_opts: Vec<usize> = vec![1, 2, 3, 8];
    let hmodes: u64 = if H2_KNOWN { 2 } else { 1 }; // all cheap height / height 5 on top
    let dims = [PLAIN_HASHES.len() as u64, ws.len() as u64, level_opts.len() as u64, hmodes];
    let total: u64 = dims.iter().product();
    if run >= total {
        return None;
    }
    let mut r = run;
    let hash = PLAIN_HASHES[(r % dims[0]) as usize];
    r /= dims[0];
    let w = ws[(r % dims[1]) as usize];
    r /= dims[1];
    let l = level_opts[(r % dims[2]) as usize];
    r /= dims[2];
    let hmode = r % hmodes;
    if l > crate::BUILD_MAX_LEVELS {
        return None;
    }
    let mut params: Vec<(u32, u32)> = (0..l).map(|_| (w, cheap_h())).collect();
    if hmode == 1 {
        params[0].1 = 5;
    }
    if !in_build_limits(&params) {
        return None;
    }
    let n = hash.n();
    let mut plan = empty_plan();
    plan.keys.push(KeyCfg { hash, params: params.clone(), seed: rng.bytes(n) });
    plan.procs.push(0);
    plan.ops.push(Op::Keygen { key: 0, aux: None });
    plan.ops.push(Op::Inject { key: 0, counter: rng.below(1 << params.iter().map(|p| p.1).sum::<u32>()) });
    plan.ops.push(Op::Sign { proc: 0, msg: Msg { len: 11, cseed: rng.next_u64() }, api: Api::Fn, cb: Cb::Accept, aux: None });
    plan.ops.push(Op::Send { key: 0, release: 0 });
    for entry in ALL_ENTRIES {
        plan.ops.push(Op::Deliver { env: 0, fault: WireFault::None, entry });
    }
    let siglen = model::sig_len(n, &params);
    let pklen = 28 + n;
    // every prefix length of the signature (through the byte function; the object entry points on
    // a stride so that each is exercised on several thousand lengths overall)
    for len in 0..siglen {
        plan.ops.push(Op::Deliver { env: 0, fault: WireFault::SigTruncateTo { len }, entry: VerifyEntry::Fn });
        if len % 7 == 0 || len < 64 || siglen - len < 64 {
            plan.ops.push(Op::Deliver { env: 0, fault: WireFault::SigTruncateTo { len }, entry: VerifyEntry::KeySig });
            plan.ops.push(Op::Deliver { env: 0, fault: WireFault::SigTruncateTo { len }, entry: VerifyEntry::KeyRef });
        }
    }
    for len in 0..pklen {
        for entry in ALL_ENTRIES {
            plan.ops.push(Op::Deliver { env: 0, fault: WireFault::PkTruncateTo { len }, entry });
        }
    }
    for k in 1..=64usize {
        let entry = ALL_ENTRIES[k % 3];
        plan.ops.push(Op::Deliver { env: 0, fault: WireFault::SigExtend { bytes: vec![0u8; k] }, entry });
        plan.ops.push(Op::Deliver { env: 0, fault: WireFault::PkExtend { bytes: vec![(k as u8) | 1; k] }, entry });
    }
    // header / type / leaf-index fields of every level: the u32 boundary set, and — for up to 3
    // levels — every value of each of their four bytes
    let mut fields = vec![Field::Nspk];
    for lv in 0..l as u8 {
        fields.extend_from_slice(&[Field::Q(lv), Field::OtsType(lv), Field::LmsType(lv)]);
        if (lv as usize) + 1 < l {
            fields.extend_from_slice(&[Field::ChildLmsType(lv), Field::ChildOtsType(lv)]);
        }
    }
    let leaves_top = 1u32 << params[0].1;
    for (fi, f) in fields.iter().enumerate() {
        for val in U32_BOUNDARY.iter().cloned().chain([leaves_top - 1, leaves_top, leaves_top + 1, 1 << 31]) {
            plan.ops.push(Op::Deliver { env: 0, fault: WireFault::FieldU32 { field: *f, val }, entry: ALL_ENTRIES[fi % 3] });
        }
        if l <= 3 {
            for idx in 0..4u8 {
                for val in 0..=255u8 {
                    // a full verification per value is affordable only for the cheap shapes; the
                    // high bytes fail in the parser
                    plan.ops.push(Op::Deliver { env: 0, fault: WireFault::FieldByte { field: *f, idx, val }, entry: ALL_ENTRIES[(val as usize + idx as usize) % 3] });
                }
            }
        }
    }
    for f in [PkField::Levels, PkField::LmsType, PkField::OtsType] {
        for val in U32_BOUNDARY {
            plan.ops.push(Op::Deliver { env: 0, fault: WireFault::PkFieldU32 { field: f, val }, entry: VerifyEntry::Fn });
        }
        for idx in 0..4u8 {
            for val in 0..=255u8 {
                plan.ops.push(Op::Deliver { env: 0, fault: WireFault::PkFieldByte { field: f, idx, val }, entry: ALL_ENTRIES[(val as usize) % 3] });
            }
        }
    }
    // PRNG byte strings of every length 0..200 as signature, and a wrong hash
    for len in 0..=200i32 {
        plan.ops.push(Op::Deliver { env: 0, fault: WireFault::RawSig { delta: len - siglen as i32, cseed: rng.next_u64() }, entry: ALL_ENTRIES[len as usize % 3] });
    }
    for len in 0..=80i32 {
        plan.ops.push(Op::Deliver { env: 0, fault: WireFault::RawPk { delta: len - pklen as i32, cseed: rng.next_u64() }, entry: ALL_ENTRIES[len as usize % 3] });
    }
    // over-long deliveries: lengths at and beyond every fixed capacity a signature / key object can have
    // (the longest signature the build's limits allow, for n = 32 and for this hash; 2^16; 2^20), as raw
    // bytes and as a valid signature followed by padding — through every entry point, since the owned
    // Signature / VerifyingKey objects copy into fixed-size buffers
    {
        let max_params: Vec<(u32, u32)> = (0..crate::BUILD_MAX_LEVELS).map(|i| (crate::BUILD_MIN_W[i.min(crate::BUILD_MIN_W.len() - 1)], crate::BUILD_TREE_HEIGHTS[i.min(crate::BUILD_TREE_HEIGHTS.len() - 1)])).collect();
        let mut lens: Vec<usize> = vec![];
        for cap in [model::sig_len(32, &max_params), model::sig_len(n, &max_params), 1 << 16, 100_000, 1 << 20] {
            for d in [-2i64, -1, 0, 1, 2, 64] {
                let v = cap as i64 + d;
                if v > 0 {
                    lens.push(v as usize);
                }
            }
        }
        lens.sort();
        lens.dedup();
        for (i, &len) in lens.iter().enumerate() {
            for entry in ALL_ENTRIES {
                plan.ops.push(Op::Deliver { env: 0, fault: WireFault::RawSig { delta: len as i32 - siglen as i32, cseed: rng.next_u64() }, entry });
                if len > siglen {
                    plan.ops.push(Op::Deliver { env: 0, fault: WireFault::SigPadTo { len, val: (i as u8) & 1 }, entry });
                }
            }
        }
        for len in [pklen + 65, 255, 256, 1000, 65535, 65536, 65537, 1 << 20] {
            for entry in ALL_ENTRIES {
                plan.ops.push(Op::Deliver { env: 0, fault: WireFault::RawPk { delta: len as i32 - pklen as i32, cseed: rng.next_u64() }, entry });
                plan.ops.push(Op::Deliver { env: 0, fault: WireFault::PkPadTo { len, val: 0 }, entry });
            }
        }
    }
    // one flipped bit in every byte of the public key, and in the first and last byte of every n-byte
    // word of the signature (randomizer, every chain value, every path node) of every level
    for byte in 0..pklen {
        plan.ops.push(Op::Deliver { env: 0, fault: WireFault::PkBitAt { byte, bit: (byte % 8) as u8 }, entry: ALL_ENTRIES[byte % 3] });
    }
    {
        let mut off = 4usize;
        for (lv, &(wv, hv)) in params.iter().enumerate() {
            let p_chains = model::ots_params(n, wv).3;
            let words_start = off + 8; // q, ots type
            let mut word = 0usize;
            // C and y
            for k in 0..(1 + p_chains) {
                let wo = words_start + k * n;
                for (j, b) in [wo, wo + n - 1].iter().enumerate() {
                    plan.ops.push(Op::Deliver { env: 0, fault: WireFault::SigBitAt { byte: *b, bit: ((k + j) % 8) as u8 }, entry: ALL_ENTRIES[(k + lv) % 3] });
                }
                word += 1;
            }
            let path_start = words_start + word * n + 4;
            for k in 0..hv as usize {
                let wo = path_start + k * n;
                for (j, b) in [wo, wo + n - 1].iter().enumerate() {
                    plan.ops.push(Op::Deliver { env: 0, fault: WireFault::SigBitAt { byte: *b, bit: ((k + j) % 8) as u8 }, entry: ALL_ENTRIES[(k + lv) % 3] });
                }
            }
            off = path_start + hv as usize * n;
            if lv + 1 < params.len() {
                // the signed child public key: identifier and root bytes
                for k in (8..24 + n).step_by(3) {
                    plan.ops.push(Op::Deliver { env: 0, fault: WireFault::SigBitAt { byte: off + k, bit: (k % 8) as u8 }, entry: ALL_ENTRIES[k % 3] });
                }
                off += 24 + n;
            }
        }
    }
    // chains of 0..=10 well-formed elements (deeper than any valid signature)
    for count in 0..=10u32 {
        for adjust_pk in [false, true] {
            plan.ops.push(Op::Deliver { env: 0, fault: WireFault::Chain { n: count, adjust_pk }, entry: ALL_ENTRIES[count as usize % 3] });
        }
    }
    // structurally well-formed signatures for every uniform (w, h) list of 1, 2, 7, 8 and 9 levels — including
    // heights 15..25, for which no real signature can be made — and for seeded mixed lists: every size and
    // offset computation of the parsers runs with the largest values the type codes allow
    {
        let mut k = 0usize;
        for lv in [1usize, 2, 7, 8, 9] {
            for wv in [1u32, 2, 4, 8] {
                for hv in [5u32, 10, 15, 20, 25] {
                    k += 1;
                    plan.ops.push(Op::Deliver { env: 0, fault: WireFault::Synthetic { params: vec![(wv, hv); lv], cseed: rng.next_u64(), adjust_pk: k % 2 == 0 }, entry: ALL_ENTRIES[k % 3] });
                }
            }
        }
        for i in 0..(if ctx.quick { 40 } else { 200 }) {
            let lv = rng.range(1, 9) as usize;
            let params: Vec<(u32, u32)> = (0..lv).map(|_| (*rng.pick(&[1u32, 2, 4, 8]), *rng.pick(&[5u32, 10, 15, 20, 25, 25]))).collect();
            plan.ops.push(Op::Deliver { env: 0, fault: WireFault::Synthetic { params, cseed: rng.next_u64(), adjust_pk: i % 2 == 0 }, entry: ALL_ENTRIES[i % 3] });
        }
    }
    for h in PLAIN_HASHES {
        if h != hash {
            plan.ops.push(Op::Deliver { env: 0, fault: WireFault::SwapHash { hash: h }, entry: VerifyEntry::Fn });
        }
    }
    // seeded field-aware and raw mutations on top
    for _ in 0..(if ctx.quick { 100 } else { 600 }) {
        let fault = wire_fault(rng, 1, l);
        plan.ops.push(Op::Deliver { env: 0, fault, entry: *rng.pick(&ALL_ENTRIES) });
    }
    plan.note = format!("enumerated: {} ({} byte signature): every prefix, extensions 1..64, field values, raw strings", crate::exec::shape_string(hash, &params), siglen);
    Some(plan)
}
pub fn wire_total_space(quick: bool) -> u64 {
    6 * (if quick { 2 } else { 4 }) * 4 * (if H2_KNOWN { 2 } else { 1 })
}

/// storage: enumerated corruptions of the key file and the parameter list (C11).
pub fn storage(ctx: &GenCtx, rng: &mut Rng, run: u64) -> Option<Plan> {
    // run index = hash x section
    let sections = 6u64;
    let total = PLAIN_HASHES.len() as u64 * sections;
    if run >= total {
        return None;
    }
    let hash = PLAIN_HASHES[(run % 6) as usize];
    let section = run / 6;
    let n = hash.n();
    let h = cheap_h();
    let params: Vec<(u32, u32)> = vec![(crate::BUILD_MIN_W[0].max(4), h.min(crate::BUILD_TREE_HEIGHTS[0])), (crate::BUILD_MIN_W.get(1).cloned().unwrap_or(1).max(2), h)].into_iter().take(crate::BUILD_MAX_LEVELS.min(2)).collect();
    let mut plan = empty_plan();
    plan.keys.push(KeyCfg { hash, params: params.clone(), seed: rng.bytes(n) });
    // a second key of another output length, to offer key files of the wrong hash
    let other = PLAIN_HASHES[((run + 1) % 6) as usize];
    plan.keys.push(KeyCfg { hash: other, params: params.clone(), seed: rng.bytes(other.n()) });
    plan.procs.push(0);
    plan.ops.push(Op::Keygen { key: 0, aux: None });
    let leaves = 1u64 << params.iter().map(|p| p.1).sum::<u32>();
    let probe = |plan: &mut Plan, f: PrvFault, rng: &mut Rng| {
        plan.ops.push(Op::Inject { key: 0, counter: 1 });
        plan.ops.push(Op::PrvFault { key: 0, fault: f });
        plan.ops.push(Op::Lifetime { proc: 0 });
        plan.ops.push(Op::Sign { proc: 0, msg: Msg { len: 4, cseed: rng.next_u64() }, api: Api::Fn, cb: Cb::Accept, aux: None });
        plan.ops.push(Op::Load { proc: 0, how: LoadAs::Object });
        plan.ops.push(Op::Sign { proc: 0, msg: Msg { len: 4, cseed: rng.next_u64() }, api: Api::Obj, cb: Cb::Accept, aux: None });
    };
    match section {
        0 => {
            for len in 0..=10usize {
                plan.ops.push(Op::KeygenLen { key: 0, len });
            }
            for len in 0..=64usize {
                probe(&mut plan, PrvFault::SetLen { len, fill: 0x00 }, rng);
                probe(&mut plan, PrvFault::SetLen { len, fill: 0x51 }, rng);
            }
            // over-long key files (beyond every fixed buffer a key object can have)
            for len in (65..=100usize).chain([127, 128, 129, 255, 256, 257, 1000, 65535, 65536, 1 << 20]) {
                probe(&mut plan, PrvFault::SetLen { len, fill: if len % 2 == 0 { 0x00 } else { 0x51 } }, rng);
            }
            for f in [PrvFault::Wiped, PrvFault::ForeignExhausted] {
                probe(&mut plan, f, rng);
            }
            for c in [0u64, leaves - 2, leaves - 1, leaves, leaves + 1, 1 << 32, 1 << 63, u64::MAX] {
                probe(&mut plan, PrvFault::Counter { val: c }, rng);
            }
            // key file of another hash (wrong n)
            let foreign = model::prv_blob(&params, 0, &plan.keys[1].seed.clone());
            probe(&mut plan, PrvFault::Replace { bytes: foreign }, rng);
            // a well-formed key file whose parameter bytes add up to a total height of 64 and more (several
            // bytes have to combine for that; no single-byte corruption of a small key gets there): every
            // query must still answer without arithmetic failure.  Affordable for the 16-byte SHA-256 only.
            if hash == HashId::Sha256_128 && in_build_limits(&vec![(4, 10); 7]) {
                for c in [0u64, 5] {
                    let tall = model::prv_blob(&vec![(4, 10); 7], c, &plan.keys[0].seed.clone());
                    probe(&mut plan, PrvFault::Replace { bytes: tall }, rng);
                }
            }
            plan.note = "enumerated: parameter-list lengths 0..10, key lengths 0..100 and over-long ones up to 1 MiB, wiped/exhausted/foreign keys, boundary counters".into();
        }
        1..=4 => {
            // every value of two of the eight parameter bytes per section
            for idx in [(section - 1) * 2, (section - 1) * 2 + 1] {
                for val in 0..=255u8 {
                    // values that decode to trees of height >= 15 are valid keys nobody can afford
                    // to expand here; they are covered through the arithmetic hook (C13)
                    let hi = val >> 4;
                    let lo = val & 0xf;
                    if (7..=9).contains(&hi) && (1..=4).contains(&lo) {
                        continue;
                    }
                    if hi == 6 && (1..=4).contains(&lo) && (ctx.quick || lo == 4 || hash.cost() > 1) {
                        continue; // height 10: thorough tier, cheap w and SHA-256 only
                    }
                    probe(&mut plan, PrvFault::ParamByte { idx: idx as u8, val }, rng);
                }
            }
            plan.note = format!("enumerated: all values of parameter bytes {} and {}", (section - 1) * 2, (section - 1) * 2 + 1);
        }
        _ => {
            // aux lengths 0..40, fresh and in-use, for keygen and sign; level-word corruptions
            for len in 0..=40usize {
                for fill in [AuxFill::Zero, AuxFill::Garbage(rng.next_u64()), AuxFill::DirtyFresh(rng.next_u64())] {
                    plan.ops.push(Op::Keygen { key: 0, aux: Some((0, len, fill.clone())) });
                    plan.ops.push(Op::NewAux { key: 0, slot: 1, len, fill });
                    plan.ops.push(Op::Inject { key: 0, counter: 2 });
                    plan.ops.push(Op::Sign { proc: 0, msg: Msg { len: 5, cseed: rng.next_u64() }, api: Api::Fn, cb: Cb::Accept, aux: Some(1) });
                    plan.ops.push(Op::Inject { key: 0, counter: 2 });
                    plan.ops.push(Op::Sign { proc: 0, msg: Msg { len: 5, cseed: rng.next_u64() }, api: Api::ObjAux, cb: Cb::Accept, aux: Some(1) });
                }
            }
            let full = 4 + n + (1..=params[0].1).map(|l| n << l).sum::<usize>() + 50;
            plan.ops.push(Op::Keygen { key: 0, aux: Some((2, full, AuxFill::Zero)) });
            for idx in 0..4u8 {
                for val in 0..=255u8 {
                    plan.ops.push(Op::AuxFault { key: 0, slot: 0, fault: AuxFault::CopyFrom { key: 0, slot: 2 } });
                    plan.ops.push(Op::AuxFault { key: 0, slot: 0, fault: AuxFault::LevelWordByte { idx, val } });
                    plan.ops.push(Op::Inject { key: 0, counter: 1 });
                    plan.ops.push(Op::Sign { proc: 0, msg: Msg { len: 5, cseed: rng.next_u64() }, api: Api::Fn, cb: Cb::Accept, aux: Some(0) });
                    if val % 8 == idx {
                        plan.ops.push(Op::AuxFault { key: 0, slot: 0, fault: AuxFault::CopyFrom { key: 0, slot: 2 } });
                        plan.ops.push(Op::AuxFault { key: 0, slot: 0, fault: AuxFault::LevelWordByte { idx, val } });
                        plan.ops.push(Op::Keygen { key: 0, aux: Some((0, 0, AuxFill::Existing)) });
                    }
                }
            }
            plan.note = "enumerated: aux lengths 0..40 (zero / garbage / dirty) for keygen and sign, all values of each level-word byte".into();
        }
    }
    Some(plan)
}
pub fn storage_space() -> u64 {
    36
}

fn aux_full_len(hash: HashId, h0: u32) -> usize {
    let n = hash.n();
    4 + n + (1..=h0).map(|l| n << l).sum::<usize>()
}

fn rand_aux_fault(rng: &mut Rng, nkeys: usize) -> AuxFault {
    match rng.below(15) {
        0 | 1 => AuxFault::BitFlip { pos: rng.next_u64() as u32, bit: rng.below(8) as u8 },
        2 => AuxFault::Truncate { len: rng.next_u64() as u32 },
        3 => AuxFault::TruncateTo { len: rng.below(40) as usize },
        4 => {
            let k = rng.range(1, 64) as usize;
            AuxFault::Pad { bytes: rng.bytes(k) }
        }
        5 => AuxFault::Zero,
        6 => AuxFault::Garbage { cseed: rng.next_u64() },
        7 => AuxFault::MarkerOnly,
        8 => AuxFault::LevelWord { val: if rng.chance(1, 2) { rng.next_u64() as u32 | 0x8000_0000 } else { rng.next_u64() as u32 } },
        9 => AuxFault::LevelWordByte { idx: rng.below(4) as u8, val: rng.below(256) as u8 },
        10 | 11 => AuxFault::CopyFrom { key: rng.below(nkeys as u64) as usize, slot: rng.below(2) as usize },
        12 => AuxFault::MacBit { bit: rng.below(256) as u16 },
        13 => AuxFault::DropMac,
        _ => AuxFault::NodeZero { pos: rng.next_u64() as u32 },
    }
}

/// aux: keys with aux slots; keygen / sign / storage faults on the cache file interleaved.
pub fn aux(ctx: &GenCtx, rng: &mut Rng, _run: u64) -> Plan {
    let mut plan = empty_plan();
    let hash = pick_hash(rng);
    let budget = if ctx.quick { 200_000 } else { 800_000 };
    // two keys with the same shape but different seeds (foreign buffers), sometimes a third with
    // another hash of the same n
    let mut params = shape(rng, hash, 3, budget);
    if rng.chance(1, 4) && crate::BUILD_TREE_HEIGHTS[0] >= 10 && tree_cost(hash, 4, 10) <= budget * 3 {
        params[0] = (4.max(crate::BUILD_MIN_W[0]), 10);
    }
    for _ in 0..2 {
        plan.keys.push(KeyCfg { hash, params: params.clone(), seed: rng.bytes(hash.n()) });
    }
    if rng.chance(1, 2) {
        let same_n: Vec<HashId> = ALL_HASHES.iter().cloned().filter(|h| h.n() == hash.n() && h.unmetered() != hash.unmetered()).collect();
        let h2 = *rng.pick(&same_n);
        plan.keys.push(KeyCfg { hash: h2, params: params.clone(), seed: rng.bytes(hash.n()) });
    }
    let nkeys = plan.keys.len();
    for k in 0..nkeys {
        plan.procs.push(k);
    }
    let full = aux_full_len(hash, params[0].1);
    let lens = [0usize, 1, 3, 4, hash.n() + 3, hash.n() + 4, 3 * hash.n() + 4, full / 2, full - 1, full, full + 1, full + 100, 2 * full];
    for k in 0..nkeys {
        let len = *rng.pick(&lens);
        let fill = match rng.below(6) {
            0 => AuxFill::DirtyFresh(rng.next_u64()),
            1 => AuxFill::Garbage(rng.next_u64()),
            _ => AuxFill::Zero,
        };
        plan.ops.push(Op::Keygen { key: k, aux: Some((0, len, fill)) });
        // slot 1: a buffer that only ever saw `sign` (marker + nodes, no MAC)
        plan.ops.push(Op::NewAux { key: k, slot: 1, len: *rng.pick(&lens), fill: AuxFill::Zero });
    }
    let hts: Vec<u32> = params.iter().map(|p| p.1).collect();
    let leaves = 1u64 << hts.iter().sum::<u32>();
    let cost = sign_cost(hash, &params).max(1);
    let n_ops = ((if ctx.quick { 1_500_000 } else { 6_000_000 }) / (2 * cost)).clamp(6, 60);
    for _ in 0..n_ops {
        let k = rng.below(nkeys as u64) as usize;
        match rng.below(10) {
            0..=4 => {
                if rng.chance(1, 3) {
                    plan.ops.push(Op::Inject { key: k, counter: rng.below(leaves) });
                }
                let api = *rng.pick(&[Api::Fn, Api::ObjAux]);
                plan.ops.push(Op::Sign { proc: k, msg: msg(rng, hash.n()), api, cb: Cb::Accept, aux: Some(rng.below(2) as usize) });
            }
            5 | 6 | 7 => {
                let slot = rng.below(2) as usize;
                let f = rand_aux_fault(rng, nkeys);
                let combine = matches!(f, AuxFault::BitFlip { .. } | AuxFault::CopyFrom { .. } | AuxFault::NodeZero { .. }) && rng.chance(1, 3);
                plan.ops.push(Op::AuxFault { key: k, slot, fault: f });
                if combine {
                    plan.ops.push(Op::AuxFault { key: k, slot, fault: AuxFault::DropMac });
                }
            }
            8 => plan.ops.push(Op::Keygen { key: k, aux: Some((rng.below(2) as usize, 0, AuxFill::Existing)) }),
            _ => {
                let len = *rng.pick(&lens);
                let fill = match rng.below(4) {
                    0 => AuxFill::DirtyFresh(rng.next_u64()),
                    1 => AuxFill::Garbage(rng.next_u64()),
                    _ => AuxFill::Zero,
                };
                plan.ops.push(Op::Keygen { key: k, aux: Some((rng.below(2) as usize, len, fill)) });
            }
        }
    }
    if hash == HashId::Sha256_256 && params.iter().all(|p| p.1 >= 5) && rng.chance(1, 2) {
        plan.ops.insert(2 * nkeys, Op::HsKeygen { key: 0 });
    }
    plan.note = format!("{} x{} keys, full aux length {}", crate::exec::shape_string(hash, &params), nkeys, full);
    plan
}

/// aux-enum: enumerated faults on a buffer freshly filled by keygen: every single-bit flip, every
/// truncation length, padding 1..64, every value of each level-word byte.  The space is cut into
/// chunks by run index.
pub fn aux_enum(ctx: &GenCtx, rng: &mut Rng, run: u64) -> Option<Plan> {
    let hashes: Vec<HashId> = if ctx.quick { vec![HashId::M_Shake256_128, HashId::Sha256_192] } else { ALL_HASHES.to_vec() };
    let h0s: Vec<u32> = if H2_KNOWN { vec![2, 5] } else { vec![5] };
    let chunks = 16u64;
    let total = hashes.len() as u64 * h0s.len() as u64 * chunks;
    if run >= total {
        return None;
    }
    let hash = hashes[(run % hashes.len() as u64) as usize];
    let h0 = h0s[((run / hashes.len() as u64) % h0s.len() as u64) as usize];
    let chunk = run / (hashes.len() as u64 * h0s.len() as u64);
    let w = 4.max(crate::BUILD_MIN_W[0]);
    let params = vec![(w, h0)];
    if !in_build_limits(&params) {
        return None;
    }
    let n = hash.n();
    // the library caches levels h0, h0-2, ... >= 1
    let used: usize = 4 + n + (1..=h0).rev().step_by(2).map(|l| n << l).sum::<usize>();
    let mut plan = empty_plan();
    plan.keys.push(KeyCfg { hash, params: params.clone(), seed: rng.bytes(n) });
    plan.procs.push(0);
    plan.ops.push(Op::Keygen { key: 0, aux: Some((2, used + 64, AuxFill::Zero)) });
    let mut faults: Vec<AuxFault> = vec![];
    for byte in 0..used {
        for bit in 0..8u8 {
            faults.push(AuxFault::BitFlipAt { byte, bit });
        }
    }
    for len in 0..=used {
        faults.push(AuxFault::TruncateTo { len });
    }
    for k in 1..=64usize {
        faults.push(AuxFault::Pad { bytes: vec![if k % 2 == 0 { 0 } else { k as u8 }; k] });
    }
    for idx in 0..4u8 {
        for val in 0..=255u8 {
            faults.push(AuxFault::LevelWordByte { idx, val });
        }
    }
    let per = (faults.len() as u64 + chunks - 1) / chunks;
    let lo = (chunk * per) as usize;
    let hi = ((chunk + 1) * per).min(faults.len() as u64) as usize;
    let leaves = 1u64 << h0;
    for (i, f) in faults[lo..hi].iter().enumerate() {
        plan.ops.push(Op::AuxFault { key: 0, slot: 0, fault: AuxFault::CopyFrom { key: 0, slot: 2 } });
        plan.ops.push(Op::AuxFault { key: 0, slot: 0, fault: f.clone() });
        plan.ops.push(Op::Inject { key: 0, counter: (i as u64 * 5 + 1) % leaves });
        plan.ops.push(Op::Sign { proc: 0, msg: Msg { len: 6, cseed: rng.next_u64() }, api: if i % 3 == 0 { Api::ObjAux } else { Api::Fn }, cb: Cb::Accept, aux: Some(0) });
        if i % 4 == 0 {
            plan.ops.push(Op::AuxFault { key: 0, slot: 0, fault: AuxFault::CopyFrom { key: 0, slot: 2 } });
            plan.ops.push(Op::AuxFault { key: 0, slot: 0, fault: f.clone() });
            plan.ops.push(Op::Keygen { key: 0, aux: Some((0, 0, AuxFill::Existing)) });
        }
    }
    // two-fault combinations: a flipped bit in a cached node AND the buffer cut off right where the MAC
    // would start (every third node byte; spread over the chunks)
    let node_bytes: Vec<usize> = (4..used - n).step_by(3).collect();
    for (i, byte) in node_bytes.iter().enumerate() {
        if i as u64 % chunks != chunk {
            continue;
        }
        plan.ops.push(Op::AuxFault { key: 0, slot: 0, fault: AuxFault::CopyFrom { key: 0, slot: 2 } });
        plan.ops.push(Op::AuxFault { key: 0, slot: 0, fault: AuxFault::BitFlipAt { byte: *byte, bit: (i % 8) as u8 } });
        plan.ops.push(Op::AuxFault { key: 0, slot: 0, fault: AuxFault::DropMac });
        plan.ops.push(Op::Inject { key: 0, counter: (i as u64) % leaves });
        plan.ops.push(Op::Sign { proc: 0, msg: Msg { len: 6, cseed: rng.next_u64() }, api: Api::Fn, cb: Cb::Accept, aux: Some(0) });
        if i % 5 == 0 {
            plan.ops.push(Op::AuxFault { key: 0, slot: 0, fault: AuxFault::CopyFrom { key: 0, slot: 2 } });
            plan.ops.push(Op::AuxFault { key: 0, slot: 0, fault: AuxFault::BitFlipAt { byte: *byte, bit: (i % 8) as u8 } });
            plan.ops.push(Op::AuxFault { key: 0, slot: 0, fault: AuxFault::DropMac });
            plan.ops.push(Op::Keygen { key: 0, aux: Some((0, 0, AuxFill::Existing)) });
        }
    }
    plan.note = format!("enumerated: faults {}..{} of {} on the {}-byte aux buffer of {}, plus bit-flip + MAC-cut combinations", lo, hi, faults.len(), used, crate::exec::shape_string(hash, &params));
    Some(plan)
}
pub fn aux_enum_space(quick: bool) -> u64 {
    if quick {
        2 * (if H2_KNOWN { 2 } else { 1 }) * 16
    } else {
        8 * (if H2_KNOWN { 2 } else { 1 }) * 16
    }
}

/// keygen: seeds x parameter lists x hashes x aux; SHA-256/32 with heights >= 5 also against the
/// hash-sigs binary.
pub fn keygen(ctx: &GenCtx, rng: &mut Rng, run: u64) -> Plan {
    let mut plan = empty_plan();
    let against_binary = run % 4 == 0;
    let hash = if against_binary { HashId::Sha256_256 } else { pick_hash(rng) };
    let n = hash.n();
    // only the top tree is built by keygen: lower levels are free, so 8-level lists are cheap
    let maxl = crate::BUILD_MAX_LEVELS;
    let l = rng.range(1, maxl as u64) as usize;
    let top_budget: u64 = if ctx.quick { 400_000 } else { 3_000_000 };
    let mut params: Vec<(u32, u32)> = vec![];
    for i in 0..l {
        let hmax = crate::BUILD_TREE_HEIGHTS[i];
        let wmin = crate::BUILD_MIN_W[i];
        let ws: Vec<u32> = [1u32, 2, 4, 8].iter().cloned().filter(|w| *w >= wmin).collect();
        let mut hs: Vec<u32> = [2u32, 5, 10, 15, 20, 25].iter().cloned().filter(|h| *h <= hmax && (*h != 2 || (H2_KNOWN && !against_binary))).collect();
        if i == 0 {
            hs.retain(|h| *h <= 10);
        }
        let w = *rng.pick(&ws);
        let mut h = *rng.pick(&hs);
        if i == 0 {
            while tree_cost(hash, w, h) > top_budget && h > hs[0] {
                h = *hs.iter().filter(|x| **x < h).last().unwrap();
            }
        }
        params.push((w, h));
    }
    let seed = match rng.below(8) {
        0 => vec![0u8; n],
        1 => vec![0xff; n],
        2 => {
            let mut s = vec![0u8; n];
            let b = rng.below(8 * n as u64) as usize;
            s[b / 8] = 1 << (b % 8);
            s
        }
        _ => rng.bytes(n),
    };
    plan.keys.push(KeyCfg { hash, params: params.clone(), seed });
    plan.procs.push(0);
    let full = aux_full_len(hash, params[0].1);
    let aux = match rng.below(3) {
        0 => None,
        _ => Some((0usize, *rng.pick(&[10usize, 100, 500, full, full + 10, 10_000]), AuxFill::Zero)),
    };
    plan.ops.push(Op::Keygen { key: 0, aux });
    if against_binary {
        plan.ops.push(Op::HsKeygen { key: 0 });
    }
    plan.note = format!("{} against_binary={}", crate::exec::shape_string(hash, &params), against_binary);
    plan
}

/// purity: several keys, interleaved unrelated operations, observed calls repeated in other contexts.
pub fn purity(ctx: &GenCtx, rng: &mut Rng, run: u64) -> Plan {
    let mut plan = empty_plan();
    let nkeys = rng.range(3, 6) as usize;
    let budget = if ctx.quick { 120_000 } else { 500_000 };
    for k in 0..nkeys {
        // some keys are siblings: same hash and seed as the previous key, another parameter list (key
        // generation and signing may depend on (hash, parameter list, seed) only, so related keys must not
        // influence each other either)
        if k > 0 && rng.chance(1, 3) {
            let hash = plan.keys[k - 1].hash;
            let seed = plan.keys[k - 1].seed.clone();
            let mut params = shape(rng, hash, 4, budget);
            if params == plan.keys[k - 1].params {
                params[0].0 = if params[0].0 == 8 { 4.max(crate::BUILD_MIN_W[0]) } else { 8 };
            }
            plan.keys.push(KeyCfg { hash, params, seed });
            plan.procs.push(k);
            plan.ops.push(Op::Keygen { key: k, aux: None });
            continue;
        }
        let hash = pick_plain_hash(rng);
        let params = shape(rng, hash, 4, budget);
        plan.keys.push(KeyCfg { hash, params, seed: rng.bytes(hash.n()) });
        plan.procs.push(k);
        plan.ops.push(Op::Keygen { key: k, aux: None });
    }
    let mut observed: Vec<usize> = (0..nkeys).collect();
    let n_ops = if ctx.quick { rng.range(30, 80) } else { rng.range(60, 200) };
    let mut fresh_left = if run % 8 == 0 { 2 } else { 0 };
    for _ in 0..n_ops {
        let k = rng.below(nkeys as u64) as usize;
        let hts: Vec<u32> = plan.keys[k].params.iter().map(|p| p.1).collect();
        let leaves = 1u64 << hts.iter().sum::<u32>();
        match rng.below(10) {
            0..=4 => {
                if rng.chance(1, 4) {
                    plan.ops.push(Op::Inject { key: k, counter: rng.below(leaves) });
                }
                let api = *rng.pick(&[Api::Fn, Api::Obj]);
                if rng.chance(1, 5) {
                    // a failed attempt (storage refused the update) right before the observed call
                    plan.ops.push(Op::Sign { proc: k, msg: msg(rng, plan.keys[k].hash.n()), api: Api::Fn, cb: *rng.pick(&[Cb::Reject, Cb::Reject, Cb::CrashBeforeDurable]), aux: None });
                }
                observed.push(plan.ops.len());
                plan.ops.push(Op::Sign { proc: k, msg: msg(rng, plan.keys[k].hash.n()), api, cb: Cb::Accept, aux: None });
            }
            5 => plan.ops.push(Op::Load { proc: k, how: *rng.pick(&[LoadAs::Bytes, LoadAs::Object]) }),
            6 => plan.ops.push(Op::Lifetime { proc: k }),
            _ => {
                let op_ref = *rng.pick(&observed);
                let ctxs = [Context::Again, Context::OtherApi, Context::WithAux, Context::NoAux, Context::FreshThread];
                let c = if fresh_left > 0 && rng.chance(1, 6) {
                    fresh_left -= 1;
                    Context::FreshProcess
                } else {
                    *rng.pick(&ctxs)
                };
                plan.ops.push(Op::Recheck { op_ref, ctx: c });
            }
        }
    }
    // twin lineage up to and past exhaustion: one copy of a small key lives in a SigningKey object and
    // signs to the end of its life; every step is repeated from the persisted bytes through the byte API
    if run % 3 == 0 {
        let k = 0usize;
        let hts: Vec<u32> = plan.keys[k].params.iter().map(|p| p.1).collect();
        let leaves = 1u64 << hts.iter().sum::<u32>();
        let tail = rng.range(2, 5).min(leaves);
        plan.ops.push(Op::Inject { key: k, counter: leaves - tail });
        plan.ops.push(Op::Load { proc: k, how: LoadAs::Object });
        for _ in 0..tail + 1 {
            let at = plan.ops.len();
            plan.ops.push(Op::Sign { proc: k, msg: msg(rng, plan.keys[k].hash.n()), api: *rng.pick(&[Api::Obj, Api::ObjAux]), cb: Cb::Accept, aux: None });
            plan.ops.push(Op::Recheck { op_ref: at, ctx: Context::OtherApi });
            plan.ops.push(Op::Lifetime { proc: k });
        }
    }
    // at the end: every observed call once more, after all unrelated operations
    for &o in observed.iter().rev().take(12) {
        plan.ops.push(Op::Recheck { op_ref: o, ctx: Context::Again });
    }
    plan.note = format!("{} keys, {} ops", nkeys, plan.ops.len());
    plan
}

/// purity-proc: one long history per fresh child process: thousands of library calls on a few cheap keys,
/// every observed call repeated later in the same process.  Anything the library remembers across calls
/// (statics, thread-locals, counters, caches) evolves as a pure function of the plan, so a dependence on it
/// shows up as a mismatch and replays exactly.
pub fn purity_proc(ctx: &GenCtx, rng: &mut Rng, _run: u64) -> Plan {
    let mut plan = empty_plan();
    let nkeys = rng.range(2, 4) as usize;
    let h = cheap_h();
    for k in 0..nkeys {
        let hash = if k > 0 && rng.chance(1, 2) { plan.keys[0].hash } else { pick_plain_hash(rng) };
        let seed = if k > 0 && hash == plan.keys[0].hash && rng.chance(1, 2) { plan.keys[0].seed.clone() } else { rng.bytes(hash.n()) };
        let l = rng.range(1, 2.min(crate::BUILD_MAX_LEVELS as u64)) as usize;
        let params: Vec<(u32, u32)> = (0..l).map(|i| ((*rng.pick(&[2u32, 4, 8])).max(crate::BUILD_MIN_W[i]), h.min(crate::BUILD_TREE_HEIGHTS[i]))).collect();
        plan.keys.push(KeyCfg { hash, params, seed });
        plan.procs.push(k);
        plan.ops.push(Op::Keygen { key: k, aux: None });
    }
    let calls: u64 = if ctx.quick { 900 } else { 4000 };
    let mut observed: Vec<usize> = (0..nkeys).collect();
    for i in 0..calls {
        let k = rng.below(nkeys as u64) as usize;
        let leaves = 1u64 << plan.keys[k].params.iter().map(|p| p.1).sum::<u32>();
        if i % 3 == 0 {
            plan.ops.push(Op::Inject { key: k, counter: rng.below(leaves) });
        }
        if rng.chance(1, 12) {
            plan.ops.push(Op::Sign { proc: k, msg: Msg { len: rng.below(40) as usize, cseed: rng.next_u64() }, api: Api::Fn, cb: Cb::Reject, aux: None });
        }
        observed.push(plan.ops.len());
        plan.ops.push(Op::Sign { proc: k, msg: Msg { len: rng.below(40) as usize, cseed: rng.next_u64() }, api: *rng.pick(&[Api::Fn, Api::Obj]), cb: Cb::Accept, aux: None });
        if rng.chance(1, 4) {
            let o = *rng.pick(&observed);
            plan.ops.push(Op::Recheck { op_ref: o, ctx: *rng.pick(&[Context::Again, Context::OtherApi, Context::WithAux, Context::NoAux, Context::FreshThread]) });
        }
        if rng.chance(1, 50) {
            observed.push(plan.ops.len());
            plan.ops.push(Op::Keygen { key: k, aux: None });
        }
    }
    for &o in observed.iter() {
        plan.ops.push(Op::Recheck { op_ref: o, ctx: Context::Again });
    }
    plan.note = format!("{} keys, {} calls in one fresh process", nkeys, plan.ops.len());
    plan
}

pub const ARITH_HEIGHTS: [u8; 5] = [5, 10, 15, 20, 25];

/// all height tuples of length 1..8 over {5,10,15,20,25}: 5 + 25 + ... + 5^8 = 488 280
pub fn arith_tuple(mut index: u64) -> Option<Vec<u8>> {
    let mut len = 1;
    let mut count = 5u64;
    while index >= count {
        index -= count;
        len += 1;
        count *= 5;
        if len > 8 {
            return None;
        }
    }
    let mut t = vec![];
    for _ in 0..len {
        t.push(ARITH_HEIGHTS[(index % 5) as usize]);
        index /= 5;
    }
    Some(t)
}
pub const ARITH_TUPLES: u64 = 488_280;

/// radix-arith: height tuples through the hook.  Thorough: tuple index = a slice of the complete
/// enumeration per run; quick: sampled tuples (plus tuples containing the 4-leaf height).
pub fn radix_arith(ctx: &GenCtx, rng: &mut Rng, run: u64) -> Option<Plan> {
    if !H2_KNOWN {
        return None;
    }
    let mut plan = empty_plan();
    let per_run = 500u64;
    let mut tuples: Vec<Vec<u8>> = vec![];
    if ctx.quick {
        for _ in 0..per_run {
            if rng.chance(1, 5) {
                let l = rng.range(1, 8) as usize;
                tuples.push((0..l).map(|_| *rng.pick(&[2u8, 2, 5, 10, 15, 20, 25])).collect());
            } else {
                tuples.push(arith_tuple(rng.below(ARITH_TUPLES)).unwrap());
            }
        }
    } else {
        let lo = run * per_run;
        if lo >= ARITH_TUPLES + 20 * per_run {
            return None;
        }
        for i in lo..lo + per_run {
            match arith_tuple(i) {
                Some(t) => tuples.push(t),
                None => {
                    let l = rng.range(1, 8) as usize;
                    tuples.push((0..l).map(|_| *rng.pick(&[2u8, 2, 5, 10, 15, 20, 25])).collect());
                }
            }
        }
    }
    for t in tuples {
        if t.len() > crate::BUILD_MAX_LEVELS {
            continue;
        }
        let hts: Vec<u32> = t.iter().map(|&h| h as u32).collect();
        let total: u32 = hts.iter().sum();
        let mut starts = boundary_counters(&hts);
        if total < 64 {
            let last = (1u64 << total) - 1;
            starts.push(last.saturating_add(1));
        }
        starts.extend_from_slice(&[(1u64 << 63) - 1, 1u64 << 63, u64::MAX - 1, u64::MAX, rng.next_u64(), rng.next_u64() >> rng.below(64)]);
        // a few of them per tuple, boundary-biased
        let picks = if ctx.quick { 6 } else { 4 };
        for _ in 0..picks {
            let s = *rng.pick(&starts);
            plan.ops.push(Op::Arith { heights: t.clone(), start: s, steps: rng.range(8, 32) as u8 });
        }
        // always: the last leaves of the key
        if total < 64 {
            plan.ops.push(Op::Arith { heights: t.clone(), start: ((1u64 << total) - 1).saturating_sub(3), steps: 8 });
        }
    }
    plan.note = format!("{} arithmetic histories", plan.ops.len());
    Some(plan)
}
pub fn radix_arith_runs(quick: bool) -> u64 {
    if quick {
        40
    } else {
        ARITH_TUPLES / 500 + 20
    }
}

/// radix-e2e: leaf-index fields of real signatures at boundary counters of affordable tall shapes.
pub fn radix_e2e(ctx: &GenCtx, rng: &mut Rng, run: u64) -> Option<Plan> {
    let shapes: Vec<(HashId, Vec<(u32, u32)>)> = if ctx.quick {
        vec![
            (HashId::Sha256_128, vec![(4, 10), (4, 5), (4, 5)]),
            (HashId::Sha256_128, vec![(4, 5), (4, 10), (4, 2)]),
            (HashId::Sha256_128, vec![(4, 10); 7]),
            (HashId::Sha256_192, vec![(4, 5); 8]),
            (HashId::Sha256_128, vec![(4, 10), (4, 10), (4, 10), (4, 10), (4, 10), (4, 10), (4, 5)]),
            (HashId::Sha256_256, vec![(8, 5), (4, 5), (2, 5), (1, 5)]),
        ]
    } else {
        vec![
            (HashId::Sha256_128, vec![(4, 10), (4, 5), (4, 5)]),
            (HashId::Sha256_128, vec![(4, 5), (4, 10), (4, 2)]),
            (HashId::Sha256_128, vec![(4, 10); 7]),
            (HashId::Sha256_192, vec![(4, 5); 8]),
            (HashId::Sha256_128, vec![(4, 10), (4, 10), (4, 10), (4, 10), (4, 10), (4, 10), (4, 5)]),
            (HashId::Sha256_256, vec![(8, 5), (4, 5), (2, 5), (1, 5)]),
            (HashId::Sha256_128, vec![(4, 15), (4, 5)]),
            (HashId::Sha256_128, vec![(4, 10); 8]),
            (HashId::Shake256_128, vec![(4, 10), (4, 5), (4, 10)]),
            (HashId::Sha256_128, vec![(4, 2), (4, 10), (4, 2), (4, 10)]),
        ]
    };
    let reps = if ctx.quick { 1 } else { 3 };
    if run >= shapes.len() as u64 * reps {
        return None;
    }
    let (hash, params) = shapes[(run % shapes.len() as u64) as usize].clone();
    if !in_build_limits(&params) || params.iter().any(|p| p.1 == 2 && !H2_KNOWN) {
        return None;
    }
    let hts: Vec<u32> = params.iter().map(|p| p.1).collect();
    let mut plan = empty_plan();
    plan.keys.push(KeyCfg { hash, params: params.clone(), seed: rng.bytes(hash.n()) });
    plan.procs.push(0);
    plan.ops.push(Op::Keygen { key: 0, aux: None });
    plan.ops.push(Op::Lifetime { proc: 0 });
    let bc = boundary_counters(&hts);
    let k = if ctx.quick { 3 } else { 8 };
    for _ in 0..k {
        let c = *rng.pick(&bc);
        plan.ops.push(Op::Inject { key: 0, counter: c });
        plan.ops.push(Op::Lifetime { proc: 0 });
        plan.ops.push(Op::Sign { proc: 0, msg: msg(rng, hash.n()), api: *rng.pick(&[Api::Fn, Api::Obj]), cb: Cb::Accept, aux: None });
        plan.ops.push(Op::Sign { proc: 0, msg: msg(rng, hash.n()), api: Api::Fn, cb: Cb::Accept, aux: None });
    }
    // bit walk: for every bit of every upper level's leaf index, a counter that differs from a small base
    // counter in exactly that bit of that level — visited in ascending order, so every jump is forward and
    // the release ledger stays valid across them: if some bit of a parent leaf index does not reach the
    // derivation of the child tree, two different sub-trees share their one-time keys and the same bottom leaf
    // signs two messages (affordable shapes only)
    if params.len() >= 2 && params.len() <= 4 && hts.iter().sum::<u32>() < 60 {
        let base = rng.below(1u64 << hts[hts.len() - 1].min(3));
        let mut cs = vec![base];
        let mut below = 0u32;
        for j in (0..hts.len() - 1).rev() {
            below += hts[j + 1];
            for b in 0..hts[j] {
                cs.push(base + (1u64 << (below + b)));
            }
        }
        cs.sort();
        cs.dedup();
        for c in cs {
            plan.ops.push(Op::Inject { key: 0, counter: c });
            plan.ops.push(Op::Sign { proc: 0, msg: msg(rng, hash.n()), api: Api::Fn, cb: Cb::Accept, aux: None });
        }
    }
    // a counter that names no leaf (total < 64 only): must be refused
    let total: u32 = hts.iter().sum();
    if total < 64 {
        for c in [1u64 << total, (1u64 << total) + 1, u64::MAX] {
            plan.ops.push(Op::Inject { key: 0, counter: c });
            plan.ops.push(Op::Lifetime { proc: 0 });
            plan.ops.push(Op::Sign { proc: 0, msg: Msg { len: 3, cseed: 9 }, api: Api::Fn, cb: Cb::Accept, aux: None });
        }
    }
    plan.note = format!("{} boundary counters", crate::exec::shape_string(hash, &params));
    Some(plan)
}

/// tall: keys with a tree of height 15 (top, or below a cheap top tree): one keygen with an ample fresh aux
/// buffer, signatures with and without it at boundary counters, lifetime, delivery through every entry point.
/// Heights above 10 change table lookups (height, path length, aux level selection) that the cheaper profiles
/// never reach; 20 and 25 stay infeasible end to end.
pub fn tall(ctx: &GenCtx, rng: &mut Rng, run: u64) -> Option<Plan> {
    let low = cheap_h();
    let mut shapes: Vec<(HashId, Vec<(u32, u32)>)> = vec![(HashId::Sha256_128, vec![(4, 15)]), (HashId::Sha256_128, vec![(4, low), (4, 15)])];
    if !ctx.quick {
        shapes.extend([
            (HashId::Sha256_256, vec![(8, 15)]),
            (HashId::Sha256_192, vec![(4, low), (4, 15)]),
            (HashId::Sha256_128, vec![(4, 15), (2, low)]),
            (HashId::Shake256_128, vec![(4, 15)]),
            (HashId::Sha256_128, vec![(2, 15), (4, 5)]),
            (HashId::Sha256_192, vec![(4, 15), (4, 15)]),
            (HashId::Sha256_128, vec![(1, 15)]),
        ]);
    }
    let (hash, params) = shapes.get(run as usize)?.clone();
    if !in_build_limits(&params) {
        return None;
    }
    let hts: Vec<u32> = params.iter().map(|p| p.1).collect();
    let n = hash.n();
    let mut plan = empty_plan();
    plan.keys.push(KeyCfg { hash, params: params.clone(), seed: rng.bytes(n) });
    plan.procs.push(0);
    let ample = aux_full_len(hash, params[0].1.min(12)) + 100;
    plan.ops.push(Op::Keygen { key: 0, aux: Some((0, ample, AuxFill::Zero)) });
    plan.ops.push(Op::Lifetime { proc: 0 });
    let bc = boundary_counters(&hts);
    let picks = if ctx.quick { 1 } else { 3 };
    for i in 0..picks {
        // a leaf index with bits above 2^10 set on the tall level, and boundary counters
        let c = if i == 0 { (1u64 << hts.iter().sum::<u32>()) - 1 - rng.below(3) } else { *rng.pick(&bc) };
        plan.ops.push(Op::Inject { key: 0, counter: c });
        plan.ops.push(Op::Lifetime { proc: 0 });
        plan.ops.push(Op::Sign { proc: 0, msg: msg(rng, n), api: Api::Fn, cb: Cb::Accept, aux: Some(0) });
        plan.ops.push(Op::Send { key: 0, release: i as usize });
    }
    // a low counter (every leaf index below 2^10, so that a key whose tall tree is mistaken for a smaller one
    // still signs and the signature itself can be judged) ...
    plan.ops.push(Op::Inject { key: 0, counter: rng.below(1000) });
    plan.ops.push(Op::Sign { proc: 0, msg: msg(rng, n), api: Api::ObjAux, cb: Cb::Accept, aux: Some(0) });
    plan.ops.push(Op::Send { key: 0, release: picks as usize });
    // ... and a random one
    plan.ops.push(Op::Inject { key: 0, counter: 1024 + rng.below((1u64 << hts.iter().sum::<u32>()) - 1024) });
    plan.ops.push(Op::Sign { proc: 0, msg: msg(rng, n), api: Api::Fn, cb: Cb::Accept, aux: None });
    plan.ops.push(Op::Send { key: 0, release: picks as usize + 1 });
    for e in 0..=(picks as usize + 1) {
        for entry in ALL_ENTRIES {
            plan.ops.push(Op::Deliver { env: e, fault: WireFault::None, entry });
        }
    }
    // a second key generation into the buffer the first one filled, and into a smaller fresh one
    plan.ops.push(Op::Keygen { key: 0, aux: Some((0, 0, AuxFill::Existing)) });
    plan.ops.push(Op::Keygen { key: 0, aux: Some((1, 4 + n + (n << 1) + (n << 3) + 7, AuxFill::Zero)) });
    plan.note = format!("tall: {}", crate::exec::shape_string(hash, &params));
    Some(plan)
}
pub fn tall_space(quick: bool) -> u64 {
    if quick {
        2
    } else {
        9
    }
}

/// handover: library and hash-sigs alternate on one key file (SHA-256/32, heights >= 5).
pub fn handover(ctx: &GenCtx, rng: &mut Rng, _run: u64) -> Plan {
    let mut plan = empty_plan();
    let hash = HashId::Sha256_256;
    let l = rng.range(1, 3.min(crate::BUILD_MAX_LEVELS as u64)) as usize;
    let mut params = vec![];
    for i in 0..l {
        let w = *rng.pick(&[2u32, 4, 8, 8]);
        let h = if i == 0 && l <= 2 && rng.chance(1, 8) && !ctx.quick { 10 } else { 5 };
        params.push((w.max(crate::BUILD_MIN_W[i]), h));
    }
    let hts: Vec<u32> = params.iter().map(|p| p.1).collect();
    let total: u32 = hts.iter().sum();
    let leaves = 1u64 << total;
    plan.keys.push(KeyCfg { hash, params: params.clone(), seed: rng.bytes(32) });
    plan.procs.push(0);
    plan.ops.push(Op::Keygen { key: 0, aux: if rng.chance(1, 2) { Some((0, 2000, AuxFill::Zero)) } else { None } });
    if rng.chance(1, 6) {
        plan.ops.push(Op::HsKeygen { key: 0 });
    }
    let start = match rng.below(3) {
        0 => 0,
        1 => leaves.saturating_sub(rng.range(1, 6)),
        _ => {
            let b = *rng.pick(&boundary_counters(&hts));
            b.saturating_sub(rng.below(3))
        }
    };
    if start > 0 {
        plan.ops.push(Op::Inject { key: 0, counter: start });
    }
    let steps = if ctx.quick { rng.range(3, 6) } else { rng.range(4, 12) };
    for _ in 0..steps {
        if rng.chance(1, 2) {
            plan.ops.push(Op::Sign { proc: 0, msg: msg(rng, 32), api: *rng.pick(&[Api::Fn, Api::Obj]), cb: *rng.weighted(&[(8, Cb::Accept), (1, Cb::Reject), (1, Cb::CrashAfterDurable)]), aux: if rng.chance(1, 3) { Some(0) } else { None } });
        } else {
            let advance = if rng.chance(1, 4) { rng.range(1, 40) } else { 0 };
            plan.ops.push(Op::Handover { key: 0, advance, msgs: rng.range(1, 2) as u8 });
        }
    }
    // finish: make sure both sides see the end of the key sometimes
    if rng.chance(1, 3) {
        plan.ops.push(Op::Inject { key: 0, counter: leaves - 1 });
        if rng.chance(1, 2) {
            plan.ops.push(Op::Sign { proc: 0, msg: msg(rng, 32), api: Api::Fn, cb: Cb::Accept, aux: None });
            plan.ops.push(Op::Handover { key: 0, advance: 0, msgs: 1 });
        } else {
            plan.ops.push(Op::Handover { key: 0, advance: 0, msgs: 1 });
            plan.ops.push(Op::Sign { proc: 0, msg: msg(rng, 32), api: Api::Fn, cb: Cb::Accept, aux: None });
        }
    }
    plan.note = format!("{} start={}", crate::exec::shape_string(hash, &params), start);
    plan
}

/// limits: parameter lists just outside the limits of the build under test (C14).
pub fn limits(_ctx: &GenCtx, rng: &mut Rng, run: u64) -> Option<Plan> {
    let hash = PLAIN_HASHES[(run % 6) as usize];
    let variant = run / 6;
    let maxl = crate::BUILD_MAX_LEVELS;
    let hs_all = [2u32, 5, 10, 15, 20, 25];
    let ws_all = [1u32, 2, 4, 8];
    let base: Vec<(u32, u32)> = (0..maxl)
        .map(|i| {
            let h = hs_all.iter().cloned().filter(|h| *h <= crate::BUILD_TREE_HEIGHTS[i] && (*h != 2 || H2_KNOWN)).min().unwrap_or(5);
            (crate::BUILD_MIN_W[i].max(4), h)
        })
        .collect();
    let global_hmax = *crate::BUILD_TREE_HEIGHTS.iter().max().unwrap();
    let global_wmin = *crate::BUILD_MIN_W.iter().min().unwrap();
    let mut plan = empty_plan();
    let mut params = base.clone();
    let mut what = String::new();
    match variant {
        0 => {
            // one level too many
            if maxl >= 8 {
                return None;
            }
            params.push(*base.last().unwrap());
            what = format!("{} levels where the build allows {}", params.len(), maxl);
        }
        1..=8 => {
            // one height step too high at level variant-1 (beyond the largest configured height)
            let lvl = (variant - 1) as usize;
            if lvl >= maxl {
                return None;
            }
            let up = hs_all.iter().cloned().find(|h| *h > global_hmax);
            match up {
                Some(h) if h <= 10 => {
                    params[lvl].1 = h;
                    what = format!("height {} at level {} where the largest configured height is {}", h, lvl, global_hmax);
                }
                _ => return None, // taller trees are unaffordable to generate if accepted
            }
        }
        9..=16 => {
            let lvl = (variant - 9) as usize;
            if lvl >= maxl {
                return None;
            }
            let down = ws_all.iter().cloned().filter(|w| *w < global_wmin).last();
            match down {
                Some(w) => {
                    params[lvl].0 = w;
                    what = format!("w={} at level {} where the smallest configured w is {}", w, lvl, global_wmin);
                }
                None => return None,
            }
        }
        _ => return None,
    }
    plan.keys.push(KeyCfg { hash, params, seed: rng.bytes(hash.n()) });
    plan.procs.push(0);
    plan.ops.push(Op::Keygen { key: 0, aux: None });
    plan.ops.push(Op::Sign { proc: 0, msg: Msg { len: 9, cseed: rng.next_u64() }, api: Api::Fn, cb: Cb::Accept, aux: None });
    plan.ops.push(Op::Lifetime { proc: 0 });
    // the same list as a stored key file (what a build with wider limits wrote), fresh and mid-life
    plan.ops.push(Op::ForeignKey { key: 0, counter: 0 });
    plan.ops.push(Op::ForeignKey { key: 0, counter: 1 + rng.below(3) });
    plan.note = format!("out-of-limit: {}", what);
    Some(plan)
}
