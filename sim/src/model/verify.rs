//! RFC 8554 verification: section 6.3 (HSS), Algorithm 6a (LMS), Algorithm 4b (LM-OTS public key
//! candidate), with the exact-length checks.  Independent of /repo/src.

use super::*;

#[derive(Debug, Clone, PartialEq, Eq)]
pub enum Reject {
    PubKeyLength,
    PubKeyLevels,
    PubKeyType,
    SigTooShort,
    Nspk,
    SigType,
    TypeMismatch,
    LeafRange,
    SigLength,
    Root,
}

pub struct VerifyCfg {
    /// LMS type code 1 (4-leaf tree) is a known type (hook build)
    pub h2_known: bool,
    pub ls: LsPolicy,
}

struct Cur<'a> {
    d: &'a [u8],
    ix: usize,
}
impl<'a> Cur<'a> {
    fn take(&mut self, k: usize) -> Option<&'a [u8]> {
        if self.ix + k > self.d.len() {
            return None;
        }
        let s = &self.d[self.ix..self.ix + k];
        self.ix += k;
        Some(s)
    }
    fn u32(&mut self) -> Option<u32> {
        Some(u32::from_be_bytes(self.take(4)?.try_into().unwrap()))
    }
}

struct LmsPub<'a> {
    h: u32,
    w: u32,
    i: &'a [u8],
    root: &'a [u8],
}

fn parse_lms_pub<'a>(hs: HashSpec, d: &'a [u8], cfg: &VerifyCfg) -> Result<LmsPub<'a>, Reject> {
    if d.len() < 8 {
        return Err(Reject::PubKeyLength);
    }
    let lc = u32::from_be_bytes(d[0..4].try_into().unwrap());
    let oc = u32::from_be_bytes(d[4..8].try_into().unwrap());
    let h = lms_height(lc, cfg.h2_known).ok_or(Reject::PubKeyType)?;
    let w = ots_w(oc).ok_or(Reject::PubKeyType)?;
    if d.len() != 24 + hs.n {
        return Err(Reject::PubKeyLength);
    }
    Ok(LmsPub { h, w, i: &d[8..24], root: &d[24..] })
}

struct LmsSig<'a> {
    q: u32,
    w: u32,
    h: u32,
    c: &'a [u8],
    y: &'a [u8],
    path: &'a [u8],
}

/// Parse one LMS signature from the cursor (lengths driven by the type codes inside it, as in
/// Algorithm 6a step 2).
fn parse_lms_sig<'a>(hs: HashSpec, cur: &mut Cur<'a>, cfg: &VerifyCfg) -> Result<LmsSig<'a>, Reject> {
    let n = hs.n;
    let q = cur.u32().ok_or(Reject::SigTooShort)?;
    let oc = cur.u32().ok_or(Reject::SigTooShort)?;
    let w = ots_w(oc).ok_or(Reject::SigType)?;
    let p = ots_params(n, w).3;
    let c = cur.take(n).ok_or(Reject::SigTooShort)?;
    let y = cur.take(n * p).ok_or(Reject::SigTooShort)?;
    let lc = cur.u32().ok_or(Reject::SigTooShort)?;
    let h = lms_height(lc, cfg.h2_known).ok_or(Reject::SigType)?;
    let path = cur.take(n * h as usize).ok_or(Reject::SigTooShort)?;
    Ok(LmsSig { q, w, h, c, y, path })
}

fn lms_verify(hs: HashSpec, sig: &LmsSig, key: &LmsPub, msg: &[u8], cfg: &VerifyCfg) -> Result<(), Reject> {
    if sig.w != key.w || sig.h != key.h {
        return Err(Reject::TypeMismatch);
    }
    if sig.q as u64 >= (1u64 << sig.h) {
        return Err(Reject::LeafRange);
    }
    let n = hs.n;
    let (_u, _v, _ls, p) = ots_params(n, sig.w);
    let ls = cfg.ls.ls(n, sig.w);
    let qb = sig.q.to_be_bytes();
    let qh = hs.h(&[key.i, &qb, &D_MESG, sig.c, msg]);
    let a = digits(&qh, n, sig.w, ls);
    let mut cat = Vec::with_capacity(n * p);
    for k in 0..p {
        let z = chain(hs, key.i, sig.q, k as u16, &sig.y[k * n..(k + 1) * n], a[k], (1 << sig.w) - 1);
        cat.extend_from_slice(&z);
    }
    let kc = hs.h(&[key.i, &qb, &D_PBLC, &cat]);
    let mut node_num: u32 = (1u32 << sig.h) + sig.q;
    let mut tmp = hs.h(&[key.i, &node_num.to_be_bytes(), &D_LEAF, &kc]);
    let mut i = 0usize;
    while node_num > 1 {
        let sib = &sig.path[i * n..(i + 1) * n];
        let parent = node_num / 2;
        tmp = if node_num % 2 == 1 {
            hs.h(&[key.i, &parent.to_be_bytes(), &D_INTR, sib, &tmp])
        } else {
            hs.h(&[key.i, &parent.to_be_bytes(), &D_INTR, &tmp, sib])
        };
        node_num = parent;
        i += 1;
    }
    if tmp.as_slice() == key.root {
        Ok(())
    } else {
        Err(Reject::Root)
    }
}

pub fn hss_verify(hs: HashSpec, msg: &[u8], sig: &[u8], pk: &[u8], cfg: &VerifyCfg) -> Result<(), Reject> {
    if pk.len() < 4 {
        return Err(Reject::PubKeyLength);
    }
    let l = u32::from_be_bytes(pk[0..4].try_into().unwrap());
    if !(1..=8).contains(&l) {
        return Err(Reject::PubKeyLevels);
    }
    let top_key = parse_lms_pub(hs, &pk[4..], cfg)?;
    let mut cur = Cur { d: sig, ix: 0 };
    let nspk = cur.u32().ok_or(Reject::SigTooShort)?;
    if nspk.checked_add(1) != Some(l) {
        return Err(Reject::Nspk);
    }
    // parse everything first (the exact-length check is part of acceptance), then verify
    let mut sigs = vec![];
    let mut pubs = vec![];
    for _ in 0..nspk {
        sigs.push(parse_lms_sig(hs, &mut cur, cfg)?);
        let pb = cur.take(24 + hs.n).ok_or(Reject::SigTooShort)?;
        pubs.push(pb);
    }
    let last = parse_lms_sig(hs, &mut cur, cfg)?;
    if cur.ix != sig.len() {
        return Err(Reject::SigLength);
    }
    let mut key = top_key;
    for (s, pb) in sigs.iter().zip(pubs.iter()) {
        lms_verify(hs, s, &key, pb, cfg)?;
        key = parse_lms_pub(hs, pb, cfg)?;
    }
    lms_verify(hs, &last, &key, msg, cfg)
}
