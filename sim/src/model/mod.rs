//! Reference model: RFC 8554 (LM-OTS, LMS, HSS), the hash-sigs key derivation, the hash-sigs aux
//! layout and the 64-bit counter arithmetic.  Written from the RFC text and DESIGN.md Appendix A; it
//! shares no code with /repo/src and calls sha2 / sha3 directly.
//!
//! Pinned conventions (neither RFC facts nor hash-sigs facts for n != 32) are named constants with a
//! provenance comment, see DESIGN.md §2.5.

use serde::{Deserialize, Serialize};
use sha2::Digest as _;
use sha3::digest::{ExtendableOutput, Update, XofReader};
use std::cell::RefCell;
use std::collections::BTreeMap;
use std::rc::Rc;

pub mod verify;

#[derive(Clone, Copy, PartialEq, Eq, Debug, Serialize, Deserialize, Hash, PartialOrd, Ord)]
pub enum Fam {
    Sha256,
    Shake256,
}

/// A hash function of the scheme: family and output length n (first n bytes of the output —
/// pinned convention (ii)).
#[derive(Clone, Copy, PartialEq, Eq, Debug, Serialize, Deserialize, Hash, PartialOrd, Ord)]
pub struct HashSpec {
    pub fam: Fam,
    pub n: usize,
}

impl HashSpec {
    pub fn h(&self, parts: &[&[u8]]) -> Vec<u8> {
        match self.fam {
            Fam::Sha256 => {
                let mut d = sha2::Sha256::new();
                for p in parts {
                    sha2::Digest::update(&mut d, p);
                }
                d.finalize()[..self.n].to_vec()
            }
            Fam::Shake256 => {
                let mut d = sha3::Shake256::default();
                for p in parts {
                    d.update(p);
                }
                let mut out = vec![0u8; self.n];
                d.finalize_xof().read(&mut out);
                out
            }
        }
    }
    /// HMAC block size: pinned convention (iv), 64 for SHAKE as well.
    pub fn block(&self) -> usize {
        64
    }
}

pub const D_PBLC: [u8; 2] = [0x80, 0x80];
pub const D_MESG: [u8; 2] = [0x81, 0x81];
pub const D_LEAF: [u8; 2] = [0x82, 0x82];
pub const D_INTR: [u8; 2] = [0x83, 0x83];

/// LMS type code of a tree height.  Pinned convention (iii): codes 5..9 for every hash; code 1 is
/// the 4-leaf test tree made constructible by the hook.
pub fn lms_code(h: u32) -> Option<u32> {
    Some(match h {
        2 => 1,
        5 => 5,
        10 => 6,
        15 => 7,
        20 => 8,
        25 => 9,
        _ => return None,
    })
}
pub fn lms_height(code: u32, h2_known: bool) -> Option<u32> {
    Some(match code {
        1 if h2_known => 2,
        5 => 5,
        6 => 10,
        7 => 15,
        8 => 20,
        9 => 25,
        _ => return None,
    })
}
pub fn ots_code(w: u32) -> Option<u32> {
    Some(match w {
        1 => 1,
        2 => 2,
        4 => 3,
        8 => 4,
        _ => return None,
    })
}
pub fn ots_w(code: u32) -> Option<u32> {
    Some(match code {
        1 => 1,
        2 => 2,
        3 => 4,
        4 => 8,
        _ => return None,
    })
}

/// RFC 8554 Appendix B: (u, v, ls, p) from (n, w), integer arithmetic only.
pub fn ots_params(n: usize, w: u32) -> (usize, usize, u32, usize) {
    let u = (8 * n + w as usize - 1) / w as usize;
    let max = ((1usize << w) - 1) * u;
    // floor(log2(max)) + 1 == number of bits of max
    let bits = (usize::BITS - max.leading_zeros()) as usize;
    let v = (bits + w as usize - 1) / w as usize;
    let ls = 16 - (v as u32) * w;
    (u, v, ls, u + v)
}

/// The checksum shift the *pinned tree* uses: a table {1:7, 2:6, 4:4, 8:0} that ignores n.  It differs
/// from Appendix B for (n,w) in {(24,1), (16,1), (16,2)} — known finding K1.
pub fn library_ls(_n: usize, w: u32) -> u32 {
    match w {
        1 => 7,
        2 => 6,
        4 => 4,
        _ => 0,
    }
}
pub fn is_k1(n: usize, w: u32) -> bool {
    ots_params(n, w).2 != library_ls(n, w)
}

#[derive(Clone, Copy, PartialEq, Eq, Debug)]
pub enum LsPolicy {
    /// Appendix B everywhere.
    Rfc,
    /// Appendix B except for the K1 pairs, where the pinned table value is used
    /// (finding-adjusted model).
    K1Adjusted,
}
impl LsPolicy {
    pub fn ls(&self, n: usize, w: u32) -> u32 {
        match self {
            LsPolicy::Rfc => ots_params(n, w).2,
            LsPolicy::K1Adjusted => {
                if is_k1(n, w) {
                    library_ls(n, w)
                } else {
                    ots_params(n, w).2
                }
            }
        }
    }
}

pub fn coef(s: &[u8], i: usize, w: u32) -> u32 {
    let per = 8 / w as usize;
    let byte = s[(i * w as usize) / 8] as u32;
    let shift = 8 - (w * (i % per) as u32 + w);
    (byte >> shift) & ((1u32 << w) - 1)
}

/// Digits of Q || Cksm(Q) (RFC 8554 section 4.4 / Algorithm 3) with checksum shift `ls`.
pub fn digits(q: &[u8], n: usize, w: u32, ls: u32) -> Vec<u32> {
    let (u, _v, _ls, p) = ots_params(n, w);
    let mut sum: u32 = 0;
    for i in 0..u {
        sum += ((1u32 << w) - 1) - coef(q, i, w);
    }
    let ck = ((sum << ls) & 0xffff) as u16;
    let mut s = q.to_vec();
    s.extend_from_slice(&ck.to_be_bytes());
    (0..p).map(|i| coef(&s, i, w)).collect()
}

fn u32b(x: u32) -> [u8; 4] {
    x.to_be_bytes()
}
fn u16b(x: u16) -> [u8; 2] {
    x.to_be_bytes()
}

/// hash-sigs seed derivation.  Pinned convention (i): a fixed 55-byte buffer
/// I(16) q(4) j(2) 0xff seed(n) zero-padded to 32 seed bytes, for every n.
pub fn seed_derive(hs: HashSpec, seed: &[u8], i: &[u8], q: u32, j: u16) -> Vec<u8> {
    let mut b = [0u8; 55];
    b[0..16].copy_from_slice(i);
    b[16..20].copy_from_slice(&u32b(q));
    b[20..22].copy_from_slice(&u16b(j));
    b[22] = 0xff;
    b[23..23 + seed.len()].copy_from_slice(seed);
    hs.h(&[&b])
}

pub const SEED_CHILD_SEED: u16 = 0xfffe;
pub const SEED_CHILD_I: u16 = 0xffff;
pub const SEED_RANDOMIZER: u16 = 0xfffd;

/// Top-level (seed, I) from the master seed: D_TOPSEED = 0xfefe at 20..22, "which" byte at 22.
pub fn top(hs: HashSpec, master: &[u8]) -> (Vec<u8>, Vec<u8>) {
    let n = hs.n;
    let mut pre = [0u8; 55];
    pre[20] = 0xfe;
    pre[21] = 0xfe;
    pre[23..23 + n].copy_from_slice(master);
    let h0 = hs.h(&[&pre]);
    pre[23..23 + n].copy_from_slice(&h0);
    pre[22] = 1;
    let s = hs.h(&[&pre]);
    pre[22] = 2;
    let i = hs.h(&[&pre])[..16].to_vec();
    (s, i)
}
pub fn child(hs: HashSpec, seed: &[u8], i: &[u8], q: u32) -> (Vec<u8>, Vec<u8>) {
    (
        seed_derive(hs, seed, i, q, SEED_CHILD_SEED),
        seed_derive(hs, seed, i, q, SEED_CHILD_I)[..16].to_vec(),
    )
}

pub fn chain(hs: HashSpec, i: &[u8], q: u32, idx: u16, x: &[u8], a: u32, b: u32) -> Vec<u8> {
    let mut x = x.to_vec();
    for j in a..b {
        x = hs.h(&[i, &u32b(q), &u16b(idx), &[j as u8], &x]);
    }
    x
}
/// Chain starts: H(I || q || i || 0xff || seed), exactly 23+n bytes.
pub fn ots_x(hs: HashSpec, seed: &[u8], i: &[u8], q: u32, p: usize) -> Vec<Vec<u8>> {
    (0..p)
        .map(|k| hs.h(&[i, &u32b(q), &u16b(k as u16), &[0xff], seed]))
        .collect()
}
pub fn ots_pub(hs: HashSpec, w: u32, seed: &[u8], i: &[u8], q: u32) -> Vec<u8> {
    let p = ots_params(hs.n, w).3;
    let xs = ots_x(hs, seed, i, q, p);
    let mut cat = Vec::with_capacity(p * hs.n);
    for (k, x) in xs.iter().enumerate() {
        cat.extend_from_slice(&chain(hs, i, q, k as u16, x, 0, (1 << w) - 1));
    }
    hs.h(&[i, &u32b(q), &D_PBLC, &cat])
}

/// A whole LMS tree, nodes indexed 1..2^(h+1) (index 0 unused).
pub struct Tree {
    pub h: u32,
    pub nodes: Vec<Vec<u8>>,
}
impl Tree {
    pub fn root(&self) -> &[u8] {
        &self.nodes[1]
    }
    pub fn path(&self, q: u32) -> Vec<Vec<u8>> {
        let mut r = (1usize << self.h) + q as usize;
        let mut out = vec![];
        while r > 1 {
            out.push(self.nodes[r ^ 1].clone());
            r /= 2;
        }
        out
    }
}

pub fn build_tree(hs: HashSpec, w: u32, h: u32, seed: &[u8], i: &[u8]) -> Tree {
    let leaves = 1usize << h;
    let mut nodes = vec![Vec::new(); 2 * leaves];
    for q in 0..leaves {
        let r = leaves + q;
        let k = ots_pub(hs, w, seed, i, q as u32);
        nodes[r] = hs.h(&[i, &u32b(r as u32), &D_LEAF, &k]);
    }
    for r in (1..leaves).rev() {
        nodes[r] = hs.h(&[i, &u32b(r as u32), &D_INTR, &nodes[2 * r], &nodes[2 * r + 1]]);
    }
    Tree { h, nodes }
}

type TreeKey = (HashSpec, u32, u32, Vec<u8>, Vec<u8>);
thread_local! {
    static TREE_CACHE: RefCell<BTreeMap<TreeKey, Rc<Tree>>> = RefCell::new(BTreeMap::new());
    pub static MODEL_TREES_BUILT: RefCell<u64> = RefCell::new(0);
}
/// Memoised tree (pure: the cache cannot change any result).
pub fn tree(hs: HashSpec, w: u32, h: u32, seed: &[u8], i: &[u8]) -> Rc<Tree> {
    let key = (hs, w, h, seed.to_vec(), i.to_vec());
    if let Some(t) = TREE_CACHE.with(|c| c.borrow().get(&key).cloned()) {
        return t;
    }
    let t = Rc::new(build_tree(hs, w, h, seed, i));
    MODEL_TREES_BUILT.with(|c| *c.borrow_mut() += 1);
    TREE_CACHE.with(|c| {
        let mut c = c.borrow_mut();
        if c.len() > 256 {
            c.clear();
        }
        c.insert(key, t.clone());
    });
    t
}
pub fn clear_tree_cache() {
    TREE_CACHE.with(|c| c.borrow_mut().clear());
}

pub fn lms_pub(_hs: HashSpec, w: u32, h: u32, i: &[u8], root: &[u8]) -> Vec<u8> {
    let mut o = vec![];
    o.extend_from_slice(&u32b(lms_code(h).unwrap()));
    o.extend_from_slice(&u32b(ots_code(w).unwrap()));
    o.extend_from_slice(i);
    o.extend_from_slice(root);
    o
}

#[allow(clippy::too_many_arguments)]
pub fn lms_sign(
    hs: HashSpec,
    w: u32,
    h: u32,
    seed: &[u8],
    i: &[u8],
    q: u32,
    c: &[u8],
    msg: &[u8],
    t: &Tree,
    ls: u32,
) -> Vec<u8> {
    let p = ots_params(hs.n, w).3;
    let qh = hs.h(&[i, &u32b(q), &D_MESG, c, msg]);
    let a = digits(&qh, hs.n, w, ls);
    let xs = ots_x(hs, seed, i, q, p);
    let mut o = vec![];
    o.extend_from_slice(&u32b(q));
    o.extend_from_slice(&u32b(ots_code(w).unwrap()));
    o.extend_from_slice(c);
    for (k, x) in xs.iter().enumerate() {
        o.extend_from_slice(&chain(hs, i, q, k as u16, x, 0, a[k]));
    }
    o.extend_from_slice(&u32b(lms_code(h).unwrap()));
    for nd in t.path(q) {
        o.extend_from_slice(&nd);
    }
    o
}

/// (w, h) per level, top first.
pub type Params = Vec<(u32, u32)>;

/// Private key blob: counter(8 BE) || 8 parameter bytes || seed.
pub fn prv_blob(params: &Params, counter: u64, seed: &[u8]) -> Vec<u8> {
    let mut o = counter.to_be_bytes().to_vec();
    for &(w, h) in params {
        o.push(((lms_code(h).unwrap() << 4) + ots_code(w).unwrap()) as u8);
    }
    for _ in params.len()..8 {
        o.push(0xff);
    }
    o.extend_from_slice(seed);
    o
}
pub fn wiped_blob(n: usize) -> Vec<u8> {
    let mut o = vec![0u8; 8];
    o.extend_from_slice(&[0xff; 8]);
    o.extend_from_slice(&vec![0u8; n]);
    o
}

/// Outcome of decoding a private key blob the way the format documents it.
#[derive(Clone, Debug, PartialEq, Eq)]
pub enum Decoded {
    /// wrong length, reserved parameter codes, empty list, ...
    Malformed(&'static str),
    /// well-formed parameters but the counter names no leaf (>= number of leaves)
    OutOfRange { params: Params },
    Valid { params: Params, counter: u64, seed: Vec<u8> },
}
pub fn decode_prv(n: usize, blob: &[u8], h2_known: bool) -> Decoded {
    if blob.len() != 16 + n {
        return Decoded::Malformed("length");
    }
    let counter = u64::from_be_bytes(blob[0..8].try_into().unwrap());
    let mut params = vec![];
    let mut ended = false;
    for &b in &blob[8..16] {
        if b == 0xff {
            ended = true;
            continue;
        }
        if ended {
            // bytes after the end marker are ignored by both implementations
            continue;
        }
        let (hc, wc) = ((b >> 4) as u32, (b & 0xf) as u32);
        match (lms_height(hc, h2_known), ots_w(wc)) {
            (Some(h), Some(w)) => params.push((w, h)),
            _ => return Decoded::Malformed("parameter byte"),
        }
    }
    if params.is_empty() {
        return Decoded::Malformed("empty parameter list");
    }
    let total: u32 = params.iter().map(|p| p.1).sum();
    if total < 64 && (counter as u128) >= (1u128 << total) {
        return Decoded::OutOfRange { params };
    }
    Decoded::Valid { params, counter, seed: blob[16..].to_vec() }
}

/// Mixed-radix digits of the counter (bottom level least significant), u128 arithmetic.
/// None if the counter is not below the number of leaves.
pub fn leaves_of(params_h: &[u32], counter: u64) -> Option<Vec<u32>> {
    let mut c = counter as u128;
    let mut qs = vec![0u32; params_h.len()];
    for (k, &h) in params_h.iter().enumerate().rev() {
        qs[k] = (c & ((1u128 << h) - 1)) as u32;
        c >>= h;
    }
    if c != 0 {
        None
    } else {
        Some(qs)
    }
}
pub fn total_leaves(params_h: &[u32]) -> u128 {
    1u128 << params_h.iter().sum::<u32>()
}
/// Successor blob after signing with `counter`.
pub fn successor(params: &Params, counter: u64, seed: &[u8]) -> Vec<u8> {
    let hs: Vec<u32> = params.iter().map(|p| p.1).collect();
    // (a key of total height >= 64 at counter 2^64-1 has no representable successor either: wiped)
    if (counter as u128) + 1 >= total_leaves(&hs) || counter == u64::MAX {
        wiped_blob(seed.len())
    } else {
        prv_blob(params, counter + 1, seed)
    }
}

#[derive(Clone, Copy, PartialEq, Eq, Debug)]
pub enum CConv {
    /// pinned convention (v): C of level i's signature over level i+1's key comes from the CHILD
    /// tree's seed/I with the parent's q
    Library,
    /// hash-sigs: from the signing tree's own seed/I
    HashSigs,
}

pub struct HssKey {
    pub hs: HashSpec,
    pub params: Params,
    pub seed: Vec<u8>,
}

pub struct Levels {
    pub qs: Vec<u32>,
    pub seeds: Vec<(Vec<u8>, Vec<u8>)>,
    pub trees: Vec<Rc<Tree>>,
    pub pubs: Vec<Vec<u8>>,
}

impl HssKey {
    pub fn levels(&self, counter: u64) -> Option<Levels> {
        let hts: Vec<u32> = self.params.iter().map(|p| p.1).collect();
        let qs = leaves_of(&hts, counter)?;
        let mut seeds = vec![top(self.hs, &self.seed)];
        for l in 1..self.params.len() {
            let (s, i) = &seeds[l - 1];
            seeds.push(child(self.hs, s, i, qs[l - 1]));
        }
        let mut trees = vec![];
        let mut pubs = vec![];
        for (l, &(w, h)) in self.params.iter().enumerate() {
            let t = tree(self.hs, w, h, &seeds[l].0, &seeds[l].1);
            pubs.push(lms_pub(self.hs, w, h, &seeds[l].1, t.root()));
            trees.push(t);
        }
        Some(Levels { qs, seeds, trees, pubs })
    }
    pub fn public_key(&self) -> Vec<u8> {
        let (w, h) = self.params[0];
        let (s, i) = top(self.hs, &self.seed);
        let t = tree(self.hs, w, h, &s, &i);
        let mut o = u32b(self.params.len() as u32).to_vec();
        o.extend_from_slice(&lms_pub(self.hs, w, h, &i, t.root()));
        o
    }
    /// Section 6.2 signature for `counter`; None if the counter names no leaf.
    pub fn sign(&self, counter: u64, msg: &[u8], ls: LsPolicy, cc: CConv) -> Option<Vec<u8>> {
        let lv = self.levels(counter)?;
        let l = self.params.len();
        let mut sig = u32b((l - 1) as u32).to_vec();
        for k in 0..l - 1 {
            let (w, h) = self.params[k];
            let src = match cc {
                CConv::Library => &lv.seeds[k + 1],
                CConv::HashSigs => &lv.seeds[k],
            };
            let c = seed_derive(self.hs, &src.0, &src.1, lv.qs[k], SEED_RANDOMIZER);
            sig.extend_from_slice(&lms_sign(
                self.hs,
                w,
                h,
                &lv.seeds[k].0,
                &lv.seeds[k].1,
                lv.qs[k],
                &c,
                &lv.pubs[k + 1],
                &lv.trees[k],
                ls.ls(self.hs.n, w),
            ));
            sig.extend_from_slice(&lv.pubs[k + 1]);
        }
        let (w, h) = self.params[l - 1];
        let c = seed_derive(self.hs, &lv.seeds[l - 1].0, &lv.seeds[l - 1].1, lv.qs[l - 1], SEED_RANDOMIZER);
        sig.extend_from_slice(&lms_sign(
            self.hs,
            w,
            h,
            &lv.seeds[l - 1].0,
            &lv.seeds[l - 1].1,
            lv.qs[l - 1],
            &c,
            msg,
            &lv.trees[l - 1],
            ls.ls(self.hs.n, w),
        ));
        Some(sig)
    }
}

/// Aux MAC: key = H(0^20 || 0xfdfd || seed); HMAC with 64-byte block (pinned convention (iv)).
pub fn aux_mac(hs: HashSpec, master_seed: &[u8], levelword_and_nodes: &[u8]) -> Vec<u8> {
    let mut pre = [0u8; 22];
    pre[20] = 0xfd;
    pre[21] = 0xfd;
    let k = hs.h(&[&pre, master_seed]);
    let pad = hs.block() - hs.n;
    let ik: Vec<u8> = k.iter().map(|b| b ^ 0x36).collect();
    let ok: Vec<u8> = k.iter().map(|b| b ^ 0x5c).collect();
    let inner = hs.h(&[&ik, &vec![0x36u8; pad], levelword_and_nodes]);
    hs.h(&[&ok, &vec![0x5cu8; pad], &inner])
}

/// Result of checking an aux buffer against the hash-sigs layout for a given key.
#[derive(Debug, Clone, PartialEq, Eq)]
pub enum AuxCheck {
    /// first byte zero: "no aux data"
    Unused,
    /// level word, node arrays and MAC are all what the model computes
    Valid { levels: Vec<u32> },
    Invalid(String),
}
pub fn check_aux(hs: HashSpec, params: &Params, master_seed: &[u8], aux: &[u8]) -> AuxCheck {
    if aux.is_empty() || aux[0] == 0 {
        return AuxCheck::Unused;
    }
    if aux.len() < 4 {
        return AuxCheck::Invalid("shorter than level word".into());
    }
    let word = u32::from_be_bytes(aux[0..4].try_into().unwrap());
    if word & 0x8000_0000 == 0 {
        return AuxCheck::Invalid(format!("level word {:08x} lacks the in-use bit", word));
    }
    let (w, h0) = params[0];
    let mut levels = vec![];
    for l in 0..31u32 {
        if (word >> l) & 1 == 1 {
            levels.push(l);
        }
    }
    if levels.is_empty() || levels.iter().any(|&l| l == 0 || l > h0) {
        return AuxCheck::Invalid(format!("level word {:08x} names levels outside 1..={}", word, h0));
    }
    let want_len = 4 + levels.iter().map(|&l| hs.n << l).sum::<usize>() + hs.n;
    if aux.len() != want_len {
        return AuxCheck::Invalid(format!("length {} but layout needs {}", aux.len(), want_len));
    }
    let (s, i) = top(hs, master_seed);
    let t = tree(hs, w, h0, &s, &i);
    let mut off = 4;
    for &l in &levels {
        for k in 0..(1usize << l) {
            let node = &t.nodes[(1usize << l) + k];
            if &aux[off..off + hs.n] != node.as_slice() {
                return AuxCheck::Invalid(format!("level {} node {} differs from the tree", l, k));
            }
            off += hs.n;
        }
    }
    let mac = aux_mac(hs, master_seed, &aux[..off]);
    if aux[off..] != mac[..] {
        return AuxCheck::Invalid("MAC differs".into());
    }
    AuxCheck::Valid { levels }
}

/// Split an HSS signature produced by a signer (assumed well-formed) into its LMS parts.
/// Returns for each level: (q, ots code, C, y bytes, lms code, path bytes, signed content bytes
/// (child pubkey for upper levels, empty for the bottom)).
pub struct LmsPart {
    pub q: u32,
    pub ots_code: u32,
    pub c: Vec<u8>,
    pub y: Vec<u8>,
    pub lms_code: u32,
    pub path: Vec<u8>,
    pub child_pub: Vec<u8>,
    pub offset: usize,
}
pub fn split_signature(hs: HashSpec, sig: &[u8], h2_known: bool) -> Result<Vec<LmsPart>, String> {
    let n = hs.n;
    let mut ix = 0usize;
    let take = |ix: &mut usize, k: usize| -> Result<&[u8], String> {
        if *ix + k > sig.len() {
            return Err(format!("ran out of bytes at offset {} (+{})", *ix, k));
        }
        let s = &sig[*ix..*ix + k];
        *ix += k;
        Ok(s)
    };
    let nspk = u32::from_be_bytes(take(&mut ix, 4)?.try_into().unwrap());
    if nspk > 7 {
        return Err(format!("Nspk {}", nspk));
    }
    let mut parts = vec![];
    for lvl in 0..=nspk {
        let offset = ix;
        let q = u32::from_be_bytes(take(&mut ix, 4)?.try_into().unwrap());
        let oc = u32::from_be_bytes(take(&mut ix, 4)?.try_into().unwrap());
        let w = ots_w(oc).ok_or_else(|| format!("ots code {}", oc))?;
        let p = ots_params(n, w).3;
        let c = take(&mut ix, n)?.to_vec();
        let y = take(&mut ix, n * p)?.to_vec();
        let lc = u32::from_be_bytes(take(&mut ix, 4)?.try_into().unwrap());
        let h = lms_height(lc, h2_known).ok_or_else(|| format!("lms code {}", lc))?;
        let path = take(&mut ix, n * h as usize)?.to_vec();
        let child_pub = if lvl < nspk { take(&mut ix, 24 + n)?.to_vec() } else { vec![] };
        parts.push(LmsPart { q, ots_code: oc, c, y, lms_code: lc, path, child_pub, offset });
    }
    if ix != sig.len() {
        return Err(format!("{} trailing bytes", sig.len() - ix));
    }
    Ok(parts)
}

/// Length of an HSS signature by the RFC formulas.
pub fn sig_len(n: usize, params: &[(u32, u32)]) -> usize {
    let mut len = 4;
    for (k, &(w, h)) in params.iter().enumerate() {
        let p = ots_params(n, w).3;
        len += 4 + 4 + n * (p + 1) + 4 + n * h as usize;
        if k + 1 < params.len() {
            len += 24 + n;
        }
    }
    len
}
