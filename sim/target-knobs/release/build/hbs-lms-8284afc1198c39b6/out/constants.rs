pub const MAX_ALLOWED_HSS_LEVELS: usize = 2;

pub const MAX_TREE_HEIGHT: usize = 20;

pub const TREE_HEIGHTS: [usize; 2] = [20, 10];

pub const MIN_WINTERNITZ_PARAMETER: usize = 1;

pub const WINTERNITZ_PARAMETERS: [usize; 2] = [1, 4];

