pub const MAX_ALLOWED_HSS_LEVELS: usize = 6;

pub const MAX_TREE_HEIGHT: usize = 25;

pub const TREE_HEIGHTS: [usize; 6] = [10, 25, 10, 15, 10, 25];

pub const MIN_WINTERNITZ_PARAMETER: usize = 2;

pub const WINTERNITZ_PARAMETERS: [usize; 6] = [8, 4, 8, 2, 8, 8];

