pub const MAX_ALLOWED_HSS_LEVELS: usize = 3;

pub const MAX_TREE_HEIGHT: usize = 5;

pub const TREE_HEIGHTS: [usize; 3] = [5, 5, 5];

pub const MIN_WINTERNITZ_PARAMETER: usize = 4;

pub const WINTERNITZ_PARAMETERS: [usize; 3] = [4, 4, 4];

