pub const MAX_ALLOWED_HSS_LEVELS: usize = 2;

pub const MAX_TREE_HEIGHT: usize = 10;

pub const TREE_HEIGHTS: [usize; 2] = [10, 5];

pub const MIN_WINTERNITZ_PARAMETER: usize = 2;

pub const WINTERNITZ_PARAMETERS: [usize; 2] = [2, 4];

