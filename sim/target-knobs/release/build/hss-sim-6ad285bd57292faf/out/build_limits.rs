pub const BUILD_MAX_LEVELS: usize = 2;
pub const BUILD_TREE_HEIGHTS: &[u32] = &[20, 10];
pub const BUILD_MIN_W: &[u32] = &[1, 4];
pub const BUILD_IS_DEFAULT: bool = false;
