pub const BUILD_MAX_LEVELS: usize = 3;
pub const BUILD_TREE_HEIGHTS: &[u32] = &[5, 5, 5];
pub const BUILD_MIN_W: &[u32] = &[4, 4, 4];
pub const BUILD_IS_DEFAULT: bool = false;
