pub const BUILD_MAX_LEVELS: usize = 6;
pub const BUILD_TREE_HEIGHTS: &[u32] = &[10, 25, 10, 15, 10, 25];
pub const BUILD_MIN_W: &[u32] = &[8, 4, 8, 2, 8, 8];
pub const BUILD_IS_DEFAULT: bool = false;
