#!/bin/bash
# C14: the same engine rebuilt under several HBS_LMS_* environments (build-time knobs), each binary
# running the in-limit profiles against the build-independent reference model and the out-of-limit
# profile.  ./scripts/c14.sh quick|thorough
set -u
VERIF="$(cd "$(dirname "$0")/.." && pwd)"
REPO="${VERIF_REPO:-/repo}"
tier="${1:-quick}"
export VERIF_DIR="$VERIF" VERIF_REPO="$REPO" CARGO_NET_OFFLINE=true
SEED="${VERIF_SEED:-20260923}"
t0=$(date +%s.%N)
OUT="${VERIF_OUT:-$VERIF}"
mkdir -p "$VERIF/bin" "$OUT/evidence" "$OUT/replays" "$VERIF/scratch"
# name|levels|heights|winternitz
BUILDS_QUICK=(
 "L1|1|5|8"
 "L2|2|10, 5|2, 4"
 "L2b|2|5, 10|8, 1"
 "L3|3|5, 5, 5|4, 4, 4"
)
BUILDS_THOROUGH=(
 "L1|1|5|8"
 "L2|2|10, 5|2, 4"
 "L3|3|5, 5, 5|4, 4, 4"
 "L4|4|15, 10, 5, 5|1, 2, 4, 8"
 "L8|8|5, 5, 5, 5, 5, 5, 5, 5|8, 8, 8, 8, 8, 8, 8, 8"
 "L2b|2|5, 10|8, 1"
 "L7|7|10, 10, 10, 10, 10, 10, 10|4, 4, 4, 4, 4, 4, 4"
 "L5|5|25, 25, 25, 25, 25|1, 1, 1, 1, 1"
)
if [ "$tier" = quick ]; then BUILDS=("${BUILDS_QUICK[@]}"); nswarm=2; else BUILDS=("${BUILDS_THOROUGH[@]}"); nswarm=6; fi
# swarm builds: knob settings drawn from VERIF_SEED (level count 2..7, per-level maximum height and minimum w
# drawn independently, so non-monotone and mixed limits arise), on top of the fixed list
while IFS= read -r line; do BUILDS+=("$line"); done < <(python3 - "$SEED" "$nswarm" <<'PY'
import sys
seed, n = int(sys.argv[1]), int(sys.argv[2])
M = (1 << 64) - 1
state = (seed * 0x9E3779B97F4A7C15 + 0xC14) & M
def nxt():
    global state
    state = (state + 0x9E3779B97F4A7C15) & M
    z = state
    z = ((z ^ (z >> 30)) * 0xBF58476D1CE4E5B9) & M
    z = ((z ^ (z >> 27)) * 0x94D049BB133111EB) & M
    return z ^ (z >> 31)
for i in range(n):
    L = 2 + nxt() % 6
    hs = [[5, 10, 15, 20, 25][nxt() % 5] for _ in range(L)]
    ws = [[1, 2, 4, 8][nxt() % 4] for _ in range(L)]
    print("S%d|%d|%s|%s" % (i, L, ", ".join(map(str, hs)), ", ".join(map(str, ws))))
PY
)
cfgargs=()
if [ "$REPO" != "/repo" ]; then cfgargs=(--config "paths=[\"$REPO\"]"); fi
pieces="$VERIF/scratch/c14-$$"; rm -rf "$pieces"; mkdir -p "$pieces"
KTARGET="${VERIF_TARGET:-$VERIF/sim/target}-knobs"
trap 'rm -f "$VERIF"/bin/hss-sim-*-$$' EXIT
rc=0
for b in "${BUILDS[@]}"; do
  IFS='|' read -r name L H W <<< "$b"
  ( cd "$VERIF/sim" && HBS_LMS_MAX_ALLOWED_HSS_LEVELS="$L" HBS_LMS_TREE_HEIGHTS="$H" HBS_LMS_WINTERNITZ_PARAMETERS="$W" \
      cargo build --release --offline --target-dir "$KTARGET" "${cfgargs[@]}" 2> "$pieces/build-$name.log" ) \
    || { echo "HARNESS ERROR: build under HBS_LMS_MAX_ALLOWED_HSS_LEVELS=$L HBS_LMS_TREE_HEIGHTS=\"$H\" HBS_LMS_WINTERNITZ_PARAMETERS=\"$W\" failed"; tail -30 "$pieces/build-$name.log"; rm -rf "$pieces"; exit 2; }
  cp "$KTARGET/release/hss-sim" "$VERIF/bin/hss-sim-$name-$$"
  VERIF_EVIDENCE="$pieces/$name.json" VERIF_SEED="$SEED" "$VERIF/bin/hss-sim-$name-$$" check C14 "$tier" > "$pieces/$name.out" 2>&1
  r=$?
  sed -e "s/^VIOLATION property=C14 replay=\(.*\)$/VIOLATION property=C14 replay=\1/" "$pieces/$name.out" | sed -e "s/^/[$name] /" | grep -v "^\[$name\] VIOLATION" 
  grep "^VIOLATION" "$pieces/$name.out"
  grep "^KNOWN-FINDING" "$pieces/$name.out" >/dev/null
  [ $r -gt $rc ] && rc=$r
  # a violation is a violation: the remaining builds would only repeat the (slow) minimisation for the same defect
  if grep -q "^VIOLATION" "$pieces/$name.out"; then echo "(violation found in build $name: remaining builds skipped)"; break; fi
done
python3 "$VERIF/scripts/c14_merge.py" "$tier" "$SEED" "$t0" "$pieces" "$OUT" || rc=2
rm -rf "$pieces"
exit $rc
