#!/usr/bin/env python3
import json, sys, os, glob, time
tier, seed, t0, pieces, verif = sys.argv[1], int(sys.argv[2]), float(sys.argv[3]), sys.argv[4], sys.argv[5]
files = sorted(glob.glob(os.path.join(pieces, "*.json")))
if not files:
    print("HARNESS ERROR: no per-build evidence was written")
    sys.exit(2)
ps = [(os.path.basename(f)[:-5], json.load(open(f))) for f in files]
cov = {"evaluations": 0, "distinct_nontrivial": 0, "rule": ps[0][1]["coverage"]["rule"], "samples": [], "builds": {}, "fault_fired": {}, "probes": {}}
viol = 0
for name, p in ps:
    c = p["coverage"]
    cov["evaluations"] += c["evaluations"]
    cov["distinct_nontrivial"] += c["distinct_nontrivial"]
    cov["samples"].extend(c["samples"][:1])
    cov["builds"][name] = {"knobs": c["build"], "runs": c["evaluations"], "sign_calls": c["sign_calls"], "keygens": c["keygens"], "parts": c["parts"],
                           "known_findings_printed": c["known_findings_printed"], "violations": p.get("violations", 0), "panic_sites": c["library_panic_sites_seen"]}
    for k in ("fault_fired", "probes"):
        for a, b in c[k].items():
            cov[k][a] = cov[k].get(a, 0) + b
    viol += p.get("violations", 0)
wall = time.time() - t0
cov["components"] = ps[0][1]["coverage"]["components"]
cov["runs_per_hour"] = int(cov["evaluations"] / wall * 3600) if wall > 0 else 0
ev = {"property_id": "C14", "tier": tier, "seed": seed, "level": "exploration", "coverage": cov,
      "assumptions": ps[0][1]["assumptions"] + ["the default build is held to the same reference model by C05/C07/C08/C10, so equality with the model is equality with the default build"],
      "wall_s": wall, "violations": viol}
json.dump(ev, open(os.path.join(verif, "evidence", "C14.json"), "w"), indent=1)
print("C14 %s: %d builds, %d runs, %d violations, %.1fs" % (tier, len(ps), cov["evaluations"], viol, wall))
