#!/usr/bin/env python3
"""Run the hand-written mutants of /verif/mutants against the checks that should catch them; record the
outcome in /verif/mutants/results.json (input of scripts/seeded_table.py)."""
import json, subprocess, sys, os, re
PLAN = {
 "m01_ignore_callback_err": ("callback result ignored in hss_sign_core", ["C04", "C03"]),
 "m02_randomizer_wrong_j": ("signature randomizer derived with index !3 instead of !2", ["C07"]),
 "m03_topseed_which": ("top-seed derivation uses 'which' byte 3 instead of 1", ["C08"]),
 "m05_leaf_range_off_by_one": ("leaf-range check >= became > (parser and verifier)", ["C06", "C02"]),
 "m06_aux_mac_key_not_seed_dependent": ("aux MAC key no longer depends on the seed", ["C10"]),
 "m07_aux_save_wrong_offset_level2": ("cached nodes of tree level 2 stored at swapped offsets", ["C10"]),
 "m10_tall_key_exhausted_early": ("keys of total height >= 64 reported exhausted at 2^63-1", ["C13"]),
 "m11_pubkey_unchecked_read": ("unchecked read of the identifier in the LMS public-key parser", ["C06"]),
 "m12_sign_mut_length_check": ("sign_mut accepts a message of exactly n bytes", ["C15"]),
 "m13_hidden_call_counter": ("every 700th signing call in a process flips a randomizer bit (hidden static state)", ["C09", "C07"]),
 "m15_root_prefix_compare": ("Merkle root compared without its last byte", ["C02"]),
 "m16_per_thread_randomizer_salt": ("std builds: the randomizer is mixed with a per-thread nonce (thread_local), so results differ between OS threads only", ["C09"]),
 "m14_auth_path_h10": ("authentication path sibling wrong at tree level 7 (trees of height >= 8 only)", ["C01", "C07"]),
}
only = sys.argv[1:]
rp = "/verif/mutants/results.json"
res = json.load(open(rp)) if os.path.exists(rp) else {}
for name, (what, checks) in PLAN.items():
    if only and name not in only:
        continue
    patch = "/verif/mutants/%s.patch" % name
    out = subprocess.run(["/verif/scripts/mutant.sh", patch, "--tests"] + checks, capture_output=True, text=True).stdout
    fails = len(re.findall(r"FAILED|[1-9]\d* failed", out))
    passed = sum(int(x) for x in re.findall(r"(\d+) passed", out))
    caught, missed = [], []
    for m in re.finditer(r"== (C\d+) \w+ on mutant: exit (\d+) \((\d+)s\)", out):
        (caught if m.group(2) == "1" else missed).append("%s%s" % (m.group(1), "" if m.group(2) in "01" else " (exit %s)" % m.group(2)))
    res[name] = {"what": what, "tests_pass": fails == 0 and passed >= 66, "tests_passed": passed, "caught": caught, "missed": missed}
    json.dump(res, open(rp, "w"), indent=1)
    print(name, res[name], flush=True)
