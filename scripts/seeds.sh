#!/bin/bash
# No-alarm sweep: every quick check under several VERIF_SEED values on the current tree; evidence and replays go
# to a scratch directory.  scripts/seeds.sh <first> <last> [checks...]
cd "$(dirname "$0")/.."
first=${1:-1}; last=${2:-20}; shift 2
checks=${@:-C01 C02 C03 C04 C05 C06 C07 C08 C09 C10 C11 C13 C14 C15}
out=$(mktemp -d /tmp/verif-seeds-XXXXXX)
bad=0
for seed in $(seq $first $last); do
  for c in $checks; do
    VERIF_SEED=$seed VERIF_OUT="$out" ./check $c quick > "$out/$c-$seed.log" 2>&1; rc=$?
    echo "seed=$seed $c exit=$rc $(tail -1 "$out/$c-$seed.log" | cut -c1-160)"
    if [ $rc -ne 0 ]; then bad=$((bad+1)); grep -E "^violation|^VIOLATION|HARNESS" "$out/$c-$seed.log" | head -5 | cut -c1-300; mkdir -p scratch/seed-alarms; cp "$out/$c-$seed.log" scratch/seed-alarms/; cp "$out"/replays/*-min.json scratch/seed-alarms/ 2>/dev/null; fi
  done
done
rm -rf "$out"
echo "sweep done: $bad non-zero exits"
