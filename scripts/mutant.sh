#!/bin/bash
# Sensitivity run: apply a patch to a scratch copy of the repository (never to /repo itself), optionally
# run the repository's own tests there, and run the named checks against the copy.
#   scripts/mutant.sh <patch.diff> [--tests] <Cxx>[:tier] ...
# Evidence and replay files of these runs go to a scratch directory, not to /verif/evidence.
set -u
VERIF="$(cd "$(dirname "$0")/.." && pwd)"
patch="$(readlink -f "$1")"; shift
run_tests=0
if [ "${1:-}" = "--tests" ]; then run_tests=1; shift; fi
S=$(mktemp -d /tmp/verif-mutant-XXXXXX)
trap 'rm -rf "$S"' EXIT
rsync -a --exclude target --exclude .git /repo/ "$S/repo/"
( cd "$S/repo" && git init -q . && git apply "$patch" ) || { echo "patch does not apply"; exit 2; }
if [ $run_tests = 1 ]; then
  ( cd "$S/repo" && CARGO_TARGET_DIR="$S/target" cargo test --workspace --no-fail-fast --offline 2>&1 | grep -E "^test result|FAILED|failed" | head -8 )
fi
export VERIF_REPO="$S/repo" VERIF_OUT="$S/out" VERIF_TARGET="$S/target-sim"
# sensitivity runs share the machine with other work: do not let the wall-clock budget skip runs
export VERIF_BUDGET_S="${VERIF_BUDGET_S:-7200}"
mkdir -p "$S/out/evidence" "$S/out/replays"
overall=0
for spec in "$@"; do
  c="${spec%%:*}"; tier=quick; [[ "$spec" == *:* ]] && tier="${spec##*:}"
  start=$(date +%s)
  "$VERIF/check" "$c" "$tier" > "$S/out/$c.log" 2>&1; rc=$?
  echo "== $c $tier on mutant: exit $rc ($(( $(date +%s) - start ))s)"
  grep -E "^violation:|^VIOLATION|HARNESS|^KNOWN" "$S/out/$c.log" | cut -c1-330 | head -8
  grep -E "^(\[hook-off twin\] )?C[0-9]+ (quick|thorough)" "$S/out/$c.log" | cut -c1-250 | tail -3
  [ $rc -ne 0 ] && overall=1
  if [ -n "${MUTANT_KEEP:-}" ]; then mkdir -p "$MUTANT_KEEP"; cp "$S/out/replays/"*-min.json "$S/out/replays/"*.shuttle "$MUTANT_KEEP/" 2>/dev/null; fi
done
exit $overall
