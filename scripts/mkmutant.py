#!/usr/bin/env python3
"""mkmutant.py <name> <file> <old> <new> [<file> <old> <new> ...]: write /verif/mutants/<name>.patch from textual
substitutions applied to a scratch copy of /repo."""
import sys, subprocess, tempfile, shutil, os
name = sys.argv[1]
subs = sys.argv[2:]
d = tempfile.mkdtemp(prefix="mkmut-")
try:
    subprocess.check_call(["rsync", "-a", "--exclude", "target", "--exclude", ".git", "/repo/", d + "/a/"])
    shutil.copytree(d + "/a", d + "/b")
    for i in range(0, len(subs), 3):
        f, old, new = subs[i:i+3]
        p = os.path.join(d, "b", f)
        s = open(p).read()
        assert s.count(old) >= 1, ("not found", f, old)
        open(p, "w").write(s.replace(old, new, 1))
    out = subprocess.run(["diff", "-ruN", "a", "b"], cwd=d, capture_output=True, text=True).stdout
    open("/verif/mutants/%s.patch" % name, "w").write(out)
    print(out)
finally:
    shutil.rmtree(d)
