#!/bin/bash
# Import a sub-agent's MUTANT directory as /verif/seeded/<id>/ (patch.diff, demo_mutant.rs, README.md, meta.json stub).
#   scripts/import_seeded.sh <mutant-dir> <id> <property> "<needs>"
set -eu
src="$1"; id="$2"; prop="$3"; needs="$4"
D="$(cd "$(dirname "$0")/.." && pwd)/seeded/$id"
mkdir -p "$D"
cp "$src/patch.diff" "$src/demo_mutant.rs" "$D/"
[ -f "$src/README.md" ] && cp "$src/README.md" "$D/"
python3 - "$D/meta.json" "$id" "$prop" "$needs" <<'PY'
import json, sys
p, sid, prop, needs = sys.argv[1:5]
json.dump({"id": sid, "breaks": prop, "needs": needs, "author": "sub-agent that saw only the text of property " + prop}, open(p, "w"), indent=1)
PY
echo "imported $id"
