#!/usr/bin/env python3
"""Regenerate the table of seeded changes in DESIGN.md (between the SEEDED-TABLE markers) from
seeded/*/meta.json and mutants/results.json."""
import json, glob, os, re
rows = []
for d in sorted(glob.glob("/verif/seeded/*")):
    mp = os.path.join(d, "meta.json")
    if not os.path.exists(mp):
        continue
    m = json.load(open(mp))
    res = m.get("check_results", {})
    caught = [c for c, r in sorted(res.items()) if r.get("caught")]
    missed = [c for c, r in sorted(res.items()) if not r.get("caught")]
    rows.append("| `seeded/%s` | %s | %s | %s | %s | %s |" % (m["id"], m.get("breaks", "?"), m.get("needs", "?").replace("|", "/"),
                "yes" if m.get("confirmed") else "NO", ", ".join("%s (%ss)" % (c, res[c]["seconds"]) for c in caught) or "—", ", ".join(missed) or "—"))
hand = []
rp = "/verif/mutants/results.json"
if os.path.exists(rp):
    for name, r in sorted(json.load(open(rp)).items()):
        hand.append("| `mutants/%s.patch` | %s | %s | %s | %s |" % (name, r.get("what", ""), "yes" if r.get("tests_pass") else "no (dropped)", ", ".join(r.get("caught", [])) or "—", ", ".join(r.get("missed", [])) or "—"))
out = ["Seeded changes written by sub-agents (each saw only the text of one property):", "",
       "| id | breaks | needs, in order to manifest | confirmed (tests pass, demo fails/passes) | caught by (quick tier) | run but not caught by |", "|---|---|---|---|---|---|"] + rows
if hand:
    out += ["", "Hand-written changes from the \"must catch\" lists of section 3:", "", "| patch | what | survives the 66 tests | caught by (quick tier) | run but not caught by |", "|---|---|---|---|---|"] + hand
text = "\n".join(out)
p = "/verif/DESIGN.md"
s = open(p).read()
if "SEEDED_TABLE_PLACEHOLDER" in s:
    s = s.replace("SEEDED_TABLE_PLACEHOLDER", "<!-- SEEDED-TABLE-BEGIN -->\n" + text + "\n<!-- SEEDED-TABLE-END -->")
else:
    s = re.sub(r"<!-- SEEDED-TABLE-BEGIN -->.*?<!-- SEEDED-TABLE-END -->", lambda m: "<!-- SEEDED-TABLE-BEGIN -->\n" + text + "\n<!-- SEEDED-TABLE-END -->", s, flags=re.S)
open(p, "w").write(s)
print(text)
