#!/bin/bash
# No-alarm run: apply a behaviour-preserving change (benign/<id>/patch.diff) to a scratch copy of the repository,
# run the repository's tests and the named quick checks against it; every check must exit 0.
#   scripts/benign.sh <id> <Cxx> ...
set -u
VERIF="$(cd "$(dirname "$0")/.." && pwd)"
id="$1"; shift
D="$VERIF/benign/$id"
T=$(mktemp /tmp/verif-benign-XXXXXX.txt)
trap 'rm -f "$T"' EXIT
"$VERIF/scripts/mutant.sh" "$D/patch.diff" --tests "$@" 2>&1 | tee "$T"
python3 - "$D" "$id" "$T" <<'PY'
import json, re, sys, os
d, bid, t = sys.argv[1:4]
txt = open(t).read()
res = {}
for m in re.finditer(r"== (C\d+) (\w+) on mutant: exit (\d+) \((\d+)s\)", txt):
    res[m.group(1)] = {"tier": m.group(2), "exit": int(m.group(3)), "seconds": int(m.group(4)), "silent": m.group(3) == "0"}
passed = sum(int(x) for x in re.findall(r"(\d+) passed", txt))
failed = len(re.findall(r"FAILED|[1-9]\d* failed", txt))
p = os.path.join(d, "result.json")
old = json.load(open(p)) if os.path.exists(p) else {"id": bid, "check_results": {}}
old["repo_tests_passed_with_change"] = passed
old["repo_tests_failed"] = failed
old["check_results"].update(res)
json.dump(old, open(p, "w"), indent=1)
print("result.json:", {k: v["exit"] for k, v in old["check_results"].items()})
PY
