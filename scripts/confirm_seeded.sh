#!/bin/bash
# Confirm a seeded change independently: (1) the patched tree passes the repository's own tests, (2) the
# author's demonstration fails with the change and passes without it, (3) run the named checks on it.
#   scripts/confirm_seeded.sh <seeded-id> [--features fast_verify] <Cxx>[:tier] ...
set -u
VERIF="$(cd "$(dirname "$0")/.." && pwd)"
id="$1"; shift
feat=()
demo_env=()
while true; do
  case "${1:-}" in
    --features) feat=(--features "$2"); shift 2 ;;
    --env) demo_env+=("$2"); shift 2 ;;   # KEY=VALUE for building/running the demonstration only
    *) break ;;
  esac
done
D="$VERIF/seeded/$id"
S=$(mktemp -d /tmp/verif-seeded-XXXXXX)
trap 'rm -rf "$S"' EXIT
rsync -a --exclude target --exclude .git /repo/ "$S/clean/"
rsync -a "$S/clean/" "$S/mut/"
( cd "$S/mut" && git init -q . && git apply "$D/patch.diff" ) || { echo "patch does not apply"; exit 2; }
echo "--- repository tests on the changed tree"
( cd "$S/mut" && CARGO_TARGET_DIR="$S/target" cargo test --workspace --no-fail-fast --offline 2>&1 | grep -E "^test result|FAILED|failed" | head -8 ) | tee "$S/tests.txt"
# the demonstration is added only now: one that needs a cargo feature must not break the default-feature test build
mkdir -p "$S/clean/examples" "$S/mut/examples"
cp "$D/demo_mutant.rs" "$S/clean/examples/demo_mutant.rs"; cp "$D/demo_mutant.rs" "$S/mut/examples/demo_mutant.rs"
tests_ok=$(grep -c "FAILED\|failed;" "$S/tests.txt" | head -1); passed=$(grep -o "[0-9]* passed" "$S/tests.txt" | awk '{s+=$1} END{print s}')
echo "--- demonstration with the change"
( cd "$S/mut" && env "${demo_env[@]}" CARGO_TARGET_DIR="$S/target-demo" timeout 1200 cargo run --offline --release "${feat[@]}" --example demo_mutant > "$S/demo_mut.txt" 2>&1 ); rc_mut=$?
tail -3 "$S/demo_mut.txt" | cut -c1-300
echo "--- demonstration without the change"
( cd "$S/clean" && env "${demo_env[@]}" CARGO_TARGET_DIR="$S/target-clean" timeout 1200 cargo run --offline --release "${feat[@]}" --example demo_mutant > "$S/demo_clean.txt" 2>&1 ); rc_clean=$?
tail -2 "$S/demo_clean.txt" | cut -c1-300
echo "demo exit with change: $rc_mut, without: $rc_clean; tests passed: $passed"
echo "--- checks on the changed tree"
MUTANT_KEEP="$D/replays" "$VERIF/scripts/mutant.sh" "$D/patch.diff" "$@" | tee "$S/checks.txt"
python3 - "$D" "$id" "$rc_mut" "$rc_clean" "$passed" "$S/checks.txt" "$@" <<'PY'
import json, sys, os, re
d, sid, rc_mut, rc_clean, passed, checks = sys.argv[1:7]
ran = sys.argv[7:]
meta_path = os.path.join(d, "meta.json")
meta = json.load(open(meta_path)) if os.path.exists(meta_path) else {}
res = meta.get("check_results", {})
txt = open(checks).read()
for m in re.finditer(r"== (C\d+) (\w+) on mutant: exit (\d+) \((\d+)s\)", txt):
    res[m.group(1)] = {"tier": m.group(2), "exit": int(m.group(3)), "seconds": int(m.group(4)), "caught": m.group(3) == "1"}
meta.update({"id": sid, "repo_tests_passed_with_change": int(passed or 0), "demo_exit_with_change": int(rc_mut), "demo_exit_without_change": int(rc_clean),
             "confirmed": int(rc_mut) != 0 and int(rc_clean) == 0 and int(passed or 0) >= 66, "check_results": res,
             "what_was_run": "scripts/confirm_seeded.sh %s %s (scratch copies of /repo: cargo test --workspace on the changed tree; author's demo with and without the change; ./check on the changed tree via scripts/mutant.sh)" % (sid, " ".join(ran))})
json.dump(meta, open(meta_path, "w"), indent=1)
print("meta.json updated:", {k: v["caught"] for k, v in res.items()}, "confirmed =", meta["confirmed"])
PY
