#!/usr/bin/env python3
"""Merge the per-process pieces of a shuttle-engine check into evidence + verdict."""
import json, sys, os, glob, time

prop, tier, seed, t0, pieces, verif = sys.argv[1], sys.argv[2], int(sys.argv[3]), float(sys.argv[4]), sys.argv[5], sys.argv[6]
out = sys.argv[7] if len(sys.argv) > 7 else verif
known = []
try:
    for line in open(os.path.join(verif, "KNOWN_FINDINGS.txt")):
        line = line.strip()
        if line.startswith("finding:"):
            toks = line[len("finding:"):].split()
            d = dict(t.split("=", 1) for t in toks if "=" in t and t.split("=", 1)[0] in ("property", "key"))
            if "property" in d and "key" in d:
                known.append((d["property"], d["key"], " ".join(t for t in toks if not t.startswith(("property=", "key=")))))
except FileNotFoundError:
    pass

files = sorted(glob.glob(os.path.join(pieces, "*.json")))
logs = sorted(glob.glob(os.path.join(pieces, "*.log")))
if len(files) != len(logs) or not files:
    print("HARNESS ERROR: %d of %d shuttle processes wrote no result" % (len(logs) - len(files), len(logs)))
    for l in logs:
        if not os.path.exists(l[:-4] + ".json"):
            sys.stdout.write(open(l).read()[-2000:])
    sys.exit(2)
ps = [json.load(open(f)) for f in files]
iters = sum(p["iterations"] for p in ps)
builds = {}
orders = {}
samples = []
viol = []
for p in ps:
    b = "THREADS=%d,MAX_HASH_OPTIMIZATIONS=%d" % (p["threads"], p["max_hash_optimizations"])
    e = builds.setdefault(b, {"iterations": 0, "signed_ok": 0, "refusals": 0, "cb_rejects": 0, "zero_trailer_kept": 0, "byte_identical_to_model": 0})
    for k in e:
        e[k] += p.get(k, 0)
    orders.setdefault(b, set()).update(tuple(o) for o in p["arrival_orders"])
    if len(samples) < 5:
        samples.extend(p["samples"][:2])
    if p["violation"]:
        viol.append(p["violation"])
for b in builds:
    builds[b]["distinct_arrival_orders"] = len(orders[b])
cases = set()
for p in ps:
    b = "T%d/M%d" % (p["threads"], p["max_hash_optimizations"])
    cases.update(b + "|" + c for c in p.get("cases", []))
distinct = len(cases) if prop == "C15" else sum(p["c09_interleavings"] for p in ps)
by_hash = {}
by_w = {}
for p in ps:
    for k, v in p["by_hash"].items():
        by_hash[k] = by_hash.get(k, 0) + v
    for k, v in p["by_w"].items():
        by_w[k] = by_w.get(k, 0) + v

rc = 0
printed = 0
known_printed = set()
seen_keys = set()
for v in viol:
    if v["key"] in seen_keys:
        continue
    seen_keys.add(v["key"])
    hit = [k for k in known if k[0] == v["property"] and k[1] == v["key"]]
    if hit:
        if v["key"] not in known_printed:
            print("KNOWN-FINDING: property=%s key=%s %s" % (v["property"], v["key"], hit[0][2]))
            known_printed.add(v["key"])
        continue
    print("violation: property=%s key=%s: %s" % (v["property"], v["key"], v["detail"]))
    print("VIOLATION property=%s replay=%s" % (v["property"], v["replay"]))
    printed += 1
    rc = 1

wall = time.time() - t0
if prop == "C15":
    rule = ("one shuttle iteration = one seeded schedule (random and PCT depth 3) + one scheduler-owned random stream = one sign_mut call on a 1- or 2-level "
            "key of height 2 with hash, w, counter, message length and callback verdict drawn from shuttle's RNG, or one refusal case (too short / non-zero trailer); "
            "one binary per (THREADS, MAX_HASH_OPTIMIZATIONS); distinct = distinct (build, hash, w, levels, case kind {signed, callback-reject, too-short, non-zero trailer}, order in which the worker threads delivered their results) tuples; every one of them is non-trivial in that a full sign_mut or refusal ran under a scheduler-chosen interleaving")
else:
    rule = ("K = 2..4 caller tasks each generating a key and signing three times, scheduling points between API calls, under seeded random and PCT schedules; results compared "
            "with a solo run; distinct = distinct completion orders of the API calls across tasks")
ev = {
    "property_id": prop, "tier": tier, "seed": seed, "level": "exploration",
    "coverage": {
        "evaluations": iters, "distinct_nontrivial": distinct, "rule": rule, "samples": samples,
        "builds": builds, "distinct_arrival_orders_total": sum(len(v) for v in orders.values()), "by_hash": by_hash, "by_w": by_w, "processes": len(ps),
        "schedulers": ["RandomScheduler", "PctScheduler(depth 3)"],
        "runs_per_hour": int(iters / wall * 3600) if wall > 0 else 0,
        "components": {"real": ["all of /repo/src incl. optimize_message_hash / thread_optimize_message_hash", "sha2/sha3"],
                       "simulated": ["crossbeam scope/channel -> shuttle scope/mpsc", "OsRng -> shuttle rand", "thread scheduling (shuttle)"]},
        "known_findings_printed": sorted(known_printed),
    },
    "assumptions": ["interleaving granularity is shuttle's synchronisation points (spawn, send, recv, join) plus explicit yields between API calls",
                    "the reference verifier anchored by the world simulator's checks"],
    "wall_s": wall, "violations": printed,
}
if prop == "C09":
    # the world-simulator half of C09 wrote the evidence file first: extend it
    path = os.path.join(out, "evidence", "C09.json")
    try:
        base = json.load(open(path))
        base["coverage"]["thread_engine"] = ev["coverage"]
        base["coverage"]["evaluations"] += iters
        base["coverage"]["distinct_nontrivial"] += distinct
        base["wall_s"] += wall
        base["violations"] = base.get("violations", 0) + printed
        ev = base
    except Exception:
        pass
json.dump(ev, open(os.path.join(out, "evidence", prop + ".json"), "w"), indent=1)
print("%s %s (shuttle engine): %d iterations in %d processes, %d distinct interleavings, %d violations, %.1fs" % (prop, tier, iters, len(ps), distinct, printed, wall))
sys.exit(rc)
