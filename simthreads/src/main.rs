//! Thread-schedule engine (C15, thread half of C09): the real fast_verify worker and selection code
//! run as shuttle tasks; shuttle owns every spawn/send/recv/join decision and the random bytes the
//! workers draw.  One shuttle iteration = one schedule + one random stream = one scenario.

#[path = "../../sim/src/model/mod.rs"]
#[allow(dead_code)]
mod model;

use hbs_lms::signature::{Signature as _, Verifier};
use hbs_lms::{HashChain, HssParameter, LmotsAlgorithm, LmsAlgorithm, Seed, VerifierSignature, VerifyingKey};
use model::{verify::VerifyCfg, Fam, HashSpec, LsPolicy};
use shuttle::rand::{Rng, RngCore};
use shuttle::scheduler::{PctScheduler, RandomScheduler, ReplayScheduler};
use shuttle::{Config, FailurePersistence, MaxSteps, Runner};
use std::collections::{BTreeMap, BTreeSet};
use std::panic::{catch_unwind, AssertUnwindSafe};
use std::sync::{Arc, Mutex};

include!(concat!(env!("OUT_DIR"), "/knobs.rs"));

#[derive(Default)]
struct Stats {
    iterations: u64,
    signed_ok: u64,
    refusals: u64,
    cb_rejects: u64,
    arrival_orders: BTreeSet<Vec<usize>>,
    by_hash: BTreeMap<String, u64>,
    by_w: BTreeMap<u32, u64>,
    zero_trailer_kept: u64,
    byte_identical_to_model: u64,
    samples: Vec<String>,
    c09_calls: u64,
    c09_interleavings: BTreeSet<Vec<u8>>,
    /// distinct (hash, w, levels, case kind, worker arrival order)
    cases: BTreeSet<String>,
}

fn lmots(w: u32) -> LmotsAlgorithm {
    match w {
        1 => LmotsAlgorithm::LmotsW1,
        2 => LmotsAlgorithm::LmotsW2,
        4 => LmotsAlgorithm::LmotsW4,
        _ => LmotsAlgorithm::LmotsW8,
    }
}
fn lms(h: u32) -> LmsAlgorithm {
    match h {
        2 => LmsAlgorithm::LmsH2,
        5 => LmsAlgorithm::LmsH5,
        _ => LmsAlgorithm::LmsH10,
    }
}

const HASHES: [(&str, Fam, usize); 6] = [("Sha256_256", Fam::Sha256, 32), ("Sha256_192", Fam::Sha256, 24), ("Sha256_128", Fam::Sha256, 16), ("Shake256_256", Fam::Shake256, 32), ("Shake256_192", Fam::Shake256, 24), ("Shake256_128", Fam::Shake256, 16)];

macro_rules! with_hash {
    ($idx:expr, $H:ident => $body:expr) => {
        match $idx {
            0 => {
                type $H = hbs_lms::Sha256_256;
                $body
            }
            1 => {
                type $H = hbs_lms::Sha256_192;
                $body
            }
            2 => {
                type $H = hbs_lms::Sha256_128;
                $body
            }
            3 => {
                type $H = hbs_lms::Shake256_256;
                $body
            }
            4 => {
                type $H = hbs_lms::Shake256_192;
                $body
            }
            _ => {
                type $H = hbs_lms::Shake256_128;
                $body
            }
        }
    };
}

/// A violation inside a scenario: panic with a structured message; shuttle persists the schedule.
fn violate(prop: &str, key: &str, detail: String) -> ! {
    panic!("VIOLATION|{}|{}|{}", prop, key, detail)
}

struct Keys {
    prv: Vec<u8>,
    pubk: Vec<u8>,
}
fn keygen_g<H: HashChain>(params: &[(u32, u32)], seed: &[u8]) -> Keys {
    let ps: Vec<HssParameter<H>> = params.iter().map(|&(w, h)| HssParameter::new(lmots(w), lms(h))).collect();
    let mut s = Seed::<H>::default();
    s.as_mut_slice().copy_from_slice(seed);
    let (sk, vk) = hbs_lms::keygen::<H>(&ps, &s, None).expect("keygen");
    Keys { prv: sk.as_slice().to_vec(), pubk: vk.as_slice().to_vec() }
}

struct SignMutOut {
    result: Result<(Vec<u8>, u32), ()>,
    cb_log: Vec<(Vec<u8>, bool)>,
}
fn sign_mut_g<H: HashChain>(msg: &mut [u8], prv: &[u8], accept: bool) -> SignMutOut {
    let mut cb_log = vec![];
    let r = hbs_lms::sign_mut::<H>(
        msg,
        prv,
        &mut |k: &[u8]| {
            cb_log.push((k.to_vec(), accept));
            if accept {
                Ok(())
            } else {
                Err(())
            }
        },
        None,
    );
    SignMutOut { result: r.map(|s| (s.as_ref().to_vec(), s.hash_iterations)).map_err(|_| ()), cb_log }
}
fn verify_all_g<H: HashChain>(msg: &[u8], sig: &[u8], pk: &[u8]) -> [bool; 3] {
    let a = hbs_lms::verify::<H>(msg, sig, pk).is_ok();
    let vk = VerifyingKey::<H>::from_bytes(pk);
    let b = match (&vk, hbs_lms::Signature::from_bytes(sig)) {
        (Ok(vk), Ok(s)) => Verifier::verify(vk, msg, &s).is_ok(),
        _ => false,
    };
    let c = match (&vk, VerifierSignature::from_ref(sig)) {
        (Ok(vk), Ok(s)) => Verifier::verify(vk, msg, &s).is_ok(),
        _ => false,
    };
    [a, b, c]
}
fn sign_g<H: HashChain>(msg: &[u8], prv: &[u8]) -> Option<(Vec<u8>, Vec<u8>)> {
    let mut succ = vec![];
    let r = hbs_lms::sign::<H>(msg, prv, &mut |k: &[u8]| { succ = k.to_vec(); Ok(()) }, None);
    r.ok().map(|s| (s.as_ref().to_vec(), succ))
}

/// Σ of Winternitz digits over all levels, computed by the model from the returned message and
/// signature (what the `verbose` feature reports as hash_iterations).
fn model_hash_iterations(hs: HashSpec, pubk: &[u8], msg: &[u8], sig: &[u8]) -> Option<u32> {
    let parts = model::split_signature(hs, sig, true).ok()?;
    let mut ident = pubk[12..28].to_vec();
    let mut total = 0u32;
    for (lvl, p) in parts.iter().enumerate() {
        let w = model::ots_w(p.ots_code)?;
        let signed: &[u8] = if lvl + 1 < parts.len() { &p.child_pub } else { msg };
        let q = hs.h(&[&ident, &p.q.to_be_bytes(), &model::D_MESG, &p.c, signed]);
        // the library's own shift (K1-adjusted), since it reports what it signed
        let ls = LsPolicy::K1Adjusted.ls(hs.n, w);
        total += model::digits(&q, hs.n, w, ls).iter().sum::<u32>();
        if lvl + 1 < parts.len() {
            ident = p.child_pub[8..24].to_vec();
        }
    }
    Some(total)
}

fn scenario_c15(stats: &Arc<Mutex<Stats>>) {
    // the PCT scheduler insists on at least one concurrent task per iteration; refusal cases spawn
    // none of their own
    let warmup = shuttle::thread::spawn(|| {});
    shuttle::thread::sleep(std::time::Duration::from_nanos(0));
    warmup.join().unwrap();
    let mut rng = shuttle::rand::thread_rng();
    let hi = rng.gen_range(0..6usize);
    let (hname, fam, n) = HASHES[hi];
    let hs = HashSpec { fam, n };
    let w = [1u32, 2, 4, 8][rng.gen_range(0..4usize)];
    let levels = if rng.gen_range(0..3) == 0 { 2 } else { 1 };
    let params: Vec<(u32, u32)> = (0..levels).map(|i| if i == 0 { (w, 2) } else { ([1u32, 2, 4, 8][rng.gen_range(0..4usize)], 2) }).collect();
    let params: Vec<(u32, u32)> = params.into_iter().rev().collect(); // w under test at the bottom
    let mut seed = vec![0u8; n];
    rng.fill_bytes(&mut seed);
    let leaves = 1u64 << (2 * levels);
    let counter = rng.gen_range(0..leaves);
    let case = rng.gen_range(0..10u32);
    let keys = with_hash!(hi, H => keygen_g::<H>(&params, &seed));
    let prv = model::prv_blob(&params, counter, &seed);
    if keys.prv[8..] != prv[8..] {
        violate("C15", "keygen-differs", "keygen output differs from the key encoding".into());
    }
    let _ = hbs_lms::verif_hooks::seam::take_arrivals();
    let summary;
    match case {
        0 => {
            // too short: len <= n
            let len = rng.gen_range(0..=n);
            let mut msg = vec![0u8; len];
            let before = msg.clone();
            let out = with_hash!(hi, H => sign_mut_g::<H>(&mut msg, &prv, true));
            if out.result.is_ok() || !out.cb_log.is_empty() || msg != before {
                violate("C15", "short-message-not-refused", format!("{} w={} message of {} bytes (n={}): result ok={} callbacks={} message changed={}", hname, w, len, n, out.result.is_ok(), out.cb_log.len(), msg != before));
            }
            stats.lock().unwrap().refusals += 1;
            summary = format!("{} {:?} c={} too-short len={} -> refused", hname, params, counter, len);
        }
        1 => {
            // non-zero trailer
            let len = n + 1 + rng.gen_range(0..100usize);
            let mut msg = vec![0u8; len];
            rng.fill_bytes(&mut msg[..len - n]);
            let pos = len - n + [0, n / 2, n - 1][rng.gen_range(0..3usize)];
            msg[pos] = 1 + rng.gen_range(0..255u32) as u8;
            let before = msg.clone();
            let out = with_hash!(hi, H => sign_mut_g::<H>(&mut msg, &prv, true));
            if out.result.is_ok() || !out.cb_log.is_empty() || msg != before {
                violate("C15", "nonzero-trailer-not-refused", format!("{} w={} trailer byte {} non-zero: result ok={} callbacks={} message changed={}", hname, w, pos - (len - n), out.result.is_ok(), out.cb_log.len(), msg != before));
            }
            stats.lock().unwrap().refusals += 1;
            summary = format!("{} {:?} c={} nonzero-trailer@{} -> refused", hname, params, counter, pos);
        }
        _ => {
            let body = match rng.gen_range(0..4u32) {
                0 => 1,
                1 => rng.gen_range(1..64usize),
                2 => rng.gen_range(64..600usize),
                _ => rng.gen_range(600..4096usize),
            };
            let len = n + body;
            let mut msg = vec![0u8; len];
            rng.fill_bytes(&mut msg[..body]);
            let before = msg.clone();
            let accept = case != 2;
            let out = with_hash!(hi, H => sign_mut_g::<H>(&mut msg, &prv, accept));
            let arrivals = hbs_lms::verif_hooks::seam::take_arrivals();
            if arrivals.len() != THREADS {
                violate("C15", "worker-results", format!("{} worker results delivered, {} threads configured", arrivals.len(), THREADS));
            }
            if msg[..body] != before[..body] {
                violate("C15", "prefix-changed", format!("{} w={}: bytes before the trailer were modified", hname, w));
            }
            if out.cb_log.len() != 1 {
                violate("C15", "callback-count", format!("{} w={}: callback invoked {} times", hname, w, out.cb_log.len()));
            }
            let want_succ = model::successor(&params, counter, &seed);
            if out.cb_log[0].0 != want_succ {
                violate("C15", "successor", format!("{} w={} counter {}: callback got a key that is not the successor (exactly one leaf)", hname, w, counter));
            }
            match (&out.result, accept) {
                (Ok(_), false) => violate("C15", "ok-after-reject", "signature returned although the callback rejected".into()),
                (Err(()), true) => violate("C15", "sign-mut-err", format!("{} w={} counter {} len {}: sign_mut failed on a valid request", hname, w, counter, len)),
                (Err(()), false) => {
                    stats.lock().unwrap().cb_rejects += 1;
                    summary = format!("{} {:?} c={} len={} cb-reject -> Err, arrivals {:?}", hname, params, counter, len, arrivals);
                }
                (Ok((sig, iters)), true) => {
                    let v = with_hash!(hi, H => verify_all_g::<H>(&msg, sig, &keys.pubk));
                    if v != [true, true, true] {
                        violate("C15", "does-not-verify", format!("{} w={} counter {} len {}: library verifiers say {:?} for the returned message", hname, w, counter, len, v));
                    }
                    let cfg = VerifyCfg { h2_known: true, ls: LsPolicy::K1Adjusted };
                    if let Err(r) = model::verify::hss_verify(hs, &msg, sig, &keys.pubk, &cfg) {
                        violate("C15", "independent-verifier", format!("{} w={}: independent verifier rejects: {:?}", hname, w, r));
                    }
                    // an ordinary signature: the plain signer produces a valid one for the same
                    // returned message too, and the leaf indices are the counter's digits
                    let parts = model::split_signature(hs, sig, true).unwrap_or_else(|e| violate("C15", "unparseable", e));
                    let want_q = model::leaves_of(&vec![2; levels], counter).unwrap();
                    if parts.iter().map(|p| p.q).collect::<Vec<_>>() != want_q {
                        violate("C15", "leaf-digits", format!("leaves {:?} expected {:?}", parts.iter().map(|p| p.q).collect::<Vec<_>>(), want_q));
                    }
                    match model_hash_iterations(hs, &keys.pubk, &msg, sig) {
                        Some(m) if m == *iters => {}
                        other => violate("C15", "hash-iterations", format!("{} w={}: verbose hash_iterations {} but the digits of the returned message sum to {:?}", hname, w, iters, other)),
                    }
                    let key = model::HssKey { hs, params: params.clone(), seed: seed.clone() };
                    let same = key.sign(counter, &msg, LsPolicy::K1Adjusted, model::CConv::Library).as_deref() == Some(&sig[..]);
                    let zero_trailer = msg[body..].iter().all(|&b| b == 0);
                    let mut st = stats.lock().unwrap();
                    st.signed_ok += 1;
                    st.byte_identical_to_model += same as u64;
                    st.zero_trailer_kept += zero_trailer as u64;
                    st.arrival_orders.insert(arrivals.clone());
                    drop(st);
                    summary = format!("{} {:?} c={} len={} -> ok iters={} arrivals {:?} trailer {}", hname, params, counter, len, iters, arrivals, if zero_trailer { "zero" } else { "set" });
                }
            }
        }
    }
    let mut st = stats.lock().unwrap();
    st.iterations += 1;
    let kind = if summary.contains("too-short") { "too-short" } else if summary.contains("nonzero-trailer") { "nonzero-trailer" } else if summary.contains("cb-reject") { "cb-reject" } else { "signed" };
    let arr = summary.split("arrivals ").nth(1).map(|x| x.split(']').next().unwrap_or("").to_string()).unwrap_or_default();
    st.cases.insert(format!("{}|w{}|L{}|{}|{}", hname, w, levels, kind, arr));
    *st.by_hash.entry(hname.to_string()).or_insert(0) += 1;
    *st.by_w.entry(w).or_insert(0) += 1;
    if st.samples.len() < 5 {
        st.samples.push(summary);
    }
}

/// C09, thread half: K caller tasks sign on their own keys with scheduling points between API
/// calls; every result must equal the solo result computed by an independent plain call.
fn scenario_c09(stats: &Arc<Mutex<Stats>>) {
    let mut rng = shuttle::rand::thread_rng();
    let k = rng.gen_range(2..=4usize);
    let order: Arc<Mutex<Vec<u8>>> = Arc::new(Mutex::new(vec![]));
    let mut jobs: Vec<(usize, usize, u32, Vec<u8>, u64, Vec<u8>)> = vec![];
    for t in 0..k {
        let hi = rng.gen_range(0..6usize);
        let n = HASHES[hi].2;
        let w = [2u32, 4, 8][rng.gen_range(0..3usize)];
        let mut seed = vec![0u8; n];
        rng.fill_bytes(&mut seed);
        // sibling keys: same hash and seed as the first task's key, another Winternitz parameter
        let (hi, w, seed) = match jobs.first() {
            Some((_, hi0, w0, seed0, _, _)) if rng.gen_range(0..2) == 0 => {
                let w0: u32 = *w0;
                let hi0: usize = *hi0;
                let seed0: &Vec<u8> = seed0;
                (hi0, if w0 == 8 { 4 } else { 8 }, seed0.clone())
            }
            _ => (hi, w, seed),
        };
        let c0 = rng.gen_range(0..12u64);
        let mut msg = vec![0u8; rng.gen_range(0..80usize)];
        rng.fill_bytes(&mut msg);
        jobs.push((t, hi, w, seed, c0, msg));
    }
    let mut handles = vec![];
    for (t, hi, w, seed, c0, msg) in jobs.clone() {
        let order = order.clone();
        handles.push(shuttle::thread::spawn(move || {
            let params = vec![(w, 2u32), (w, 2u32)];
            let mut out = vec![];
            let keys = with_hash!(hi, H => keygen_g::<H>(&params, &seed));
            order.lock().unwrap().push(t as u8);
            shuttle::thread::sleep(std::time::Duration::from_nanos(0));
            out.push((keys.prv.clone(), keys.pubk.clone()));
            let mut prv = model::prv_blob(&params, c0, &seed);
            for _ in 0..3 {
                let r = with_hash!(hi, H => sign_g::<H>(&msg, &prv)).expect("sign");
                order.lock().unwrap().push(t as u8);
                shuttle::thread::sleep(std::time::Duration::from_nanos(0));
                prv = r.1.clone();
                out.push(r);
            }
            out
        }));
    }
    let results: Vec<Vec<(Vec<u8>, Vec<u8>)>> = handles.into_iter().map(|h| h.join().unwrap()).collect();
    // solo run, same inputs, no other task alive
    for ((_, hi, w, seed, c0, msg), got) in jobs.iter().zip(results.iter()) {
        let params = vec![(*w, 2u32), (*w, 2u32)];
        let keys = with_hash!(*hi, H => keygen_g::<H>(&params, seed));
        let mut solo = vec![(keys.prv.clone(), keys.pubk.clone())];
        let mut prv = model::prv_blob(&params, *c0, seed);
        for _ in 0..3 {
            let r = with_hash!(*hi, H => sign_g::<H>(msg, &prv)).expect("sign");
            prv = r.1.clone();
            solo.push(r);
        }
        if &solo != got {
            violate("C09", "impure:threads", format!("{} w={}: results under concurrent callers differ from the solo run", HASHES[*hi].0, w));
        }
    }
    // the same calls once more in a newly spawned real OS thread (shuttle tasks are continuations on one OS
    // thread, so whatever the library keeps per thread was shared by all of the above and starts from scratch here)
    if let Some((_, hi, w, seed, c0, msg)) = jobs.first().cloned() {
        let params = vec![(w, 2u32), (w, 2u32)];
        let p2 = params.clone();
        let (seed2, msg2) = (seed.clone(), msg.clone());
        let fresh = std::thread::Builder::new()
            .stack_size(64 << 20)
            .spawn(move || {
                let keys = with_hash!(hi, H => keygen_g::<H>(&p2, &seed2));
                let mut out = vec![(keys.prv.clone(), keys.pubk.clone())];
                let mut prv = model::prv_blob(&p2, c0, &seed2);
                for _ in 0..3 {
                    match with_hash!(hi, H => sign_g::<H>(&msg2, &prv)) {
                        Some(r) => {
                            prv = r.1.clone();
                            out.push(r);
                        }
                        None => break,
                    }
                }
                out
            })
            .ok()
            .and_then(|h| h.join().ok());
        if let Some(fresh) = fresh {
            if fresh != results[0] {
                violate("C09", "impure:os-thread", format!("{} w={}: the same calls in a newly spawned OS thread give different results", HASHES[hi].0, w));
            }
        }
    }
    let mut st = stats.lock().unwrap();
    st.iterations += 1;
    st.c09_calls += (k * 4) as u64;
    let o = order.lock().unwrap().clone();
    if st.samples.len() < 5 {
        st.samples.push(format!("{} caller tasks, completion order of API calls {:?}", k, o));
    }
    st.c09_interleavings.insert(o);
}

fn config(replay_dir: &str) -> Config {
    let mut cfg = Config::new();
    cfg.stack_size = 16 << 20;
    cfg.failure_persistence = FailurePersistence::File(Some(replay_dir.into()));
    cfg.max_steps = MaxSteps::FailAfter(5_000_000);
    cfg
}

fn newest_schedule(dir: &str) -> Option<std::path::PathBuf> {
    let mut best: Option<(std::time::SystemTime, std::path::PathBuf)> = None;
    for e in std::fs::read_dir(dir).ok()? {
        let e = e.ok()?;
        let name = e.file_name().to_string_lossy().to_string();
        if name.starts_with("schedule") && name.ends_with(".txt") {
            let t = e.metadata().ok()?.modified().ok()?;
            if best.as_ref().map(|b| t > b.0).unwrap_or(true) {
                best = Some((t, e.path()));
            }
        }
    }
    best.map(|b| b.1)
}

static LAST_LOC: Mutex<String> = Mutex::new(String::new());

fn normalise(file: &str, line: u32) -> String {
    if let Some(pos) = file.find("/registry/src/") {
        let rest = &file[pos + "/registry/src/".len()..];
        let rest = rest.splitn(2, '/').nth(1).unwrap_or(rest);
        return format!("dep:{}:{}", rest, line);
    }
    if let Some(pos) = file.rfind("/src/") {
        let tag = if file[..pos].ends_with("/simthreads") || file[..pos].ends_with("/sim") { "harness:" } else { "" };
        return format!("{}src/{}:{}", tag, &file[pos + 5..], line);
    }
    format!("{}:{}", file, line)
}

fn main() {
    // record where a panic happened (shuttle chains to this hook after persisting the schedule)
    std::panic::set_hook(Box::new(|info| {
        if let Some(l) = info.location() {
            *LAST_LOC.lock().unwrap() = normalise(l.file(), l.line());
        }
    }));
    let args: Vec<String> = std::env::args().collect();
    let mode = args.get(1).cloned().unwrap_or_default();
    let code = std::thread::Builder::new()
        .stack_size(256 << 20)
        .spawn(move || match mode.as_str() {
            "run" => {
                // run <c15|c09> <random|pct> <iters> <seed> <replay-dir> <piece.json>
                let which = args[2].clone();
                let sched = args[3].clone();
                let iters: usize = args[4].parse().unwrap();
                let seed: u64 = args[5].parse().unwrap();
                let dir = args[6].clone();
                let piece = args[7].clone();
                std::fs::create_dir_all(&dir).ok();
                let stats = Arc::new(Mutex::new(Stats::default()));
                let s2 = stats.clone();
                let w2 = which.clone();
                let f = move || {
                    if w2 == "c15" {
                        scenario_c15(&s2)
                    } else {
                        scenario_c09(&s2)
                    }
                };
                let t0 = std::time::Instant::now();
                let r = catch_unwind(AssertUnwindSafe(|| {
                    if sched == "pct" {
                        Runner::new(PctScheduler::new_from_seed(seed, 3, iters), config(&dir)).run(f)
                    } else {
                        Runner::new(RandomScheduler::new_from_seed(seed, iters), config(&dir)).run(f)
                    }
                }));
                let st = stats.lock().unwrap();
                let mut violation = serde_json::Value::Null;
                let mut code = 0;
                if let Err(p) = r {
                    let msg = p.downcast_ref::<String>().cloned().or_else(|| p.downcast_ref::<&str>().map(|s| s.to_string())).unwrap_or_default();
                    let prop = if which == "c15" { "C15" } else { "C09" };
                    let (key, detail) = match msg.find("VIOLATION|") {
                        Some(i) => {
                            let rest: Vec<&str> = msg[i..].splitn(4, '|').collect();
                            (rest.get(2).unwrap_or(&"?").to_string(), rest.get(3).unwrap_or(&"").to_string())
                        }
                        None => {
                            // a panic inside the library (or a deadlock reported by shuttle)
                            let loc = LAST_LOC.lock().unwrap().clone();
                            (format!("panic:{}", loc), format!("panic at {}: {}", loc, msg.lines().next().unwrap_or("")))
                        }
                    };
                    let file = newest_schedule(&dir).map(|p| {
                        let tgt = std::path::Path::new(&dir).join(format!("{}-{}-t{}-m{}-{}.shuttle", prop, seed, THREADS, MAX_HASH_OPTIMIZATIONS, sched));
                        let sched_text = std::fs::read_to_string(&p).unwrap_or_default();
                        let wrapped = serde_json::json!({"property": prop, "key": key, "detail": detail, "scenario": which, "threads": THREADS, "max_hash_optimizations": MAX_HASH_OPTIMIZATIONS, "scheduler": sched, "seed": seed, "schedule": sched_text.trim()});
                        std::fs::write(&tgt, serde_json::to_string_pretty(&wrapped).unwrap()).ok();
                        std::fs::remove_file(&p).ok();
                        tgt
                    });
                    violation = serde_json::json!({"property": prop, "key": key, "detail": detail.lines().next().unwrap_or(""), "replay": file.as_ref().map(|f| f.display().to_string())});
                    code = 1;
                }
                let j = serde_json::json!({
                    "scenario": which, "scheduler": sched, "seed": seed, "threads": THREADS, "max_hash_optimizations": MAX_HASH_OPTIMIZATIONS,
                    "iterations": st.iterations, "signed_ok": st.signed_ok, "refusals": st.refusals, "cb_rejects": st.cb_rejects,
                    "arrival_orders": st.arrival_orders.iter().collect::<Vec<_>>(),
                    "by_hash": st.by_hash, "by_w": st.by_w, "zero_trailer_kept": st.zero_trailer_kept, "byte_identical_to_model": st.byte_identical_to_model,
                    "cases": st.cases.iter().collect::<Vec<_>>(), "samples": st.samples, "c09_calls": st.c09_calls, "c09_interleavings": st.c09_interleavings.len(),
                    "wall_s": t0.elapsed().as_secs_f64(), "violation": violation,
                });
                std::fs::write(&piece, serde_json::to_string(&j).unwrap()).expect("write piece");
                code
            }
            "replay" => {
                // replay <file.shuttle>
                let s = std::fs::read_to_string(&args[2]).expect("read replay");
                let j: serde_json::Value = serde_json::from_str(&s).expect("json");
                if j["threads"].as_u64() != Some(THREADS as u64) || j["max_hash_optimizations"].as_u64() != Some(MAX_HASH_OPTIMIZATIONS as u64) {
                    eprintln!("this binary is built for THREADS={} MAX_HASH_OPTIMIZATIONS={}, the replay needs {} / {}", THREADS, MAX_HASH_OPTIMIZATIONS, j["threads"], j["max_hash_optimizations"]);
                    return 3;
                }
                let which = j["scenario"].as_str().unwrap_or("c15").to_string();
                let tmp = std::env::temp_dir().join(format!("hss-simthreads-{}.sched", std::process::id()));
                std::fs::write(&tmp, j["schedule"].as_str().unwrap_or("")).unwrap();
                let stats = Arc::new(Mutex::new(Stats::default()));
                let mut cfg = config(std::env::temp_dir().to_str().unwrap());
                cfg.failure_persistence = FailurePersistence::None;
                let sched = ReplayScheduler::new_from_file(&tmp).expect("schedule");
                let r = catch_unwind(AssertUnwindSafe(|| {
                    Runner::new(sched, cfg).run(move || if which == "c15" { scenario_c15(&stats) } else { scenario_c09(&stats) });
                }));
                std::fs::remove_file(&tmp).ok();
                match r {
                    Err(p) => {
                        let msg = p.downcast_ref::<String>().cloned().or_else(|| p.downcast_ref::<&str>().map(|s| s.to_string())).unwrap_or_default();
                        println!("reproduced: {}", msg.lines().next().unwrap_or(""));
                        println!("VIOLATION property={} replay={}", j["property"].as_str().unwrap_or("C15"), args[2]);
                        1
                    }
                    Ok(()) => {
                        println!("not reproduced");
                        0
                    }
                }
            }
            _ => {
                eprintln!("usage: hss-simthreads run <c15|c09> <random|pct> <iters> <seed> <replay-dir> <piece.json> | replay <file>");
                2
            }
        })
        .unwrap()
        .join()
        .unwrap_or(2);
    std::process::exit(code);
}
