use std::{env, fs, path::Path};
fn main() {
    println!("cargo:rerun-if-env-changed=HBS_LMS_THREADS");
    println!("cargo:rerun-if-env-changed=HBS_LMS_MAX_HASH_OPTIMIZATIONS");
    let t: usize = env::var("HBS_LMS_THREADS").ok().and_then(|s| s.parse().ok()).unwrap_or(1);
    let m: usize = env::var("HBS_LMS_MAX_HASH_OPTIMIZATIONS").ok().and_then(|s| s.parse().ok()).unwrap_or(10_000);
    let out = format!("pub const THREADS: usize = {};\npub const MAX_HASH_OPTIMIZATIONS: usize = {};\n", t, m);
    fs::write(Path::new(&env::var("OUT_DIR").unwrap()).join("knobs.rs"), out).unwrap();
    println!("cargo:rustc-check-cfg=cfg(hbs_lms_verif)");
    println!("cargo:rustc-check-cfg=cfg(hbs_lms_verif_shuttle)");
}
