#!/bin/bash
# Shuttle engine driver: ./run.sh C15|C09 quick|thorough     ./run.sh replay <file.shuttle>
set -u
HERE="$(cd "$(dirname "$0")" && pwd)"
VERIF="$(dirname "$HERE")"
REPO="${VERIF_REPO:-/repo}"
SEED="${VERIF_SEED:-20260923}"
export CARGO_NET_OFFLINE=true
OUT="${VERIF_OUT:-$VERIF}"
mkdir -p "$VERIF/bin" "$OUT/replays" "$OUT/evidence" "$VERIF/scratch"
# Sources are built in place for the real tree; a sensitivity run against a scratch copy of the repository
# (VERIF_TARGET set) builds from its own copy of the engine sources, so the two never share the generated
# shadow manifest or the target directory.
if [ -n "${VERIF_TARGET:-}" ]; then
  WORK="$VERIF_TARGET-threads"
  mkdir -p "$WORK/simthreads" "$WORK/shadow/gen" "$WORK/sim/src"
  rsync -a --delete --exclude target "$HERE/" "$WORK/simthreads/"
  rsync -a --delete "$VERIF/sim/src/model" "$WORK/sim/src/"
  SRC="$WORK/simthreads"; GEN="$WORK/shadow/gen"
else
  SRC="$HERE"; GEN="$VERIF/shadow/gen"; mkdir -p "$GEN"
fi
BINTAG="$$"
sed "s|@REPO@|$REPO|g" "$VERIF/shadow/Cargo.toml.in" > "$GEN/Cargo.toml.new"
cmp -s "$GEN/Cargo.toml.new" "$GEN/Cargo.toml" 2>/dev/null || mv "$GEN/Cargo.toml.new" "$GEN/Cargo.toml"
rm -f "$GEN/Cargo.toml.new"
trap 'rm -f "$VERIF"/bin/simthreads-*-"$BINTAG"' EXIT

build() { # threads max_opt
  ( cd "$SRC" && HBS_LMS_THREADS=$1 HBS_LMS_MAX_HASH_OPTIMIZATIONS=$2 cargo build --release --offline 2> "$SRC/target-build-$1-$2.log" ) || { echo "HARNESS ERROR: build of hss-simthreads (THREADS=$1 MAX_HASH_OPTIMIZATIONS=$2) failed"; tail -30 "$SRC/target-build-$1-$2.log"; return 2; }
  cp "$SRC/target/release/hss-simthreads" "$VERIF/bin/simthreads-$1-$2-$BINTAG"
  rm -f "$SRC/target-build-$1-$2.log"
}

case "${1:-}" in
  replay)
    f="${2:?file}"
    t=$(python3 -c "import json,sys; j=json.load(open(sys.argv[1])); print(j['threads'], j['max_hash_optimizations'])" "$f") || exit 2
    set -- $t
    build "$1" "$2" || exit 2
    "$VERIF/bin/simthreads-$1-$2-$BINTAG" replay "$f"; exit $? ;;
  C15|C09)
    prop="$1"; tier="${2:-quick}"
    t0=$(date +%s.%N)
    if [ "$prop" = C15 ]; then
      scen=c15
      if [ "$tier" = quick ]; then builds="1:50 3:40 4:3"; iters=200; shards=16; else builds="1:50 3:40 4:3 2:10 4:7 8:5 5:4 1:10000"; iters=2500; shards=16; fi
    else
      scen=c09; builds="1:50"
      if [ "$tier" = quick ]; then iters=60; shards=16; else iters=1500; shards=16; fi
    fi
    pieces="$VERIF/scratch/pieces-$prop-$$"; rm -rf "$pieces"; mkdir -p "$pieces"
    for b in $builds; do
      T=${b%%:*}; M=${b##*:}
      build "$T" "$M" || exit 2
      it=$iters; [ "$M" = 10000 ] && it=$((iters/20+2))
      for s in $(seq 0 $((shards-1))); do
        sched=random; [ $((s%2)) = 1 ] && sched=pct
        "$VERIF/bin/simthreads-$T-$M-$BINTAG" run $scen $sched $it $((SEED+s)) "$OUT/replays" "$pieces/$T-$M-$s.json" > "$pieces/$T-$M-$s.log" 2>&1 &
      done
      wait
    done
    python3 "$SRC/merge.py" "$prop" "$tier" "$SEED" "$t0" "$pieces" "$VERIF" "$OUT"; rc=$?
    rm -rf "$pieces"
    exit $rc ;;
  *) echo "usage: run.sh C15|C09 quick|thorough | replay <file>"; exit 2 ;;
esac
